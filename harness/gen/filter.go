package gen

import (
	"encoding/binary"
	"hash/fnv"
	"sort"

	"github.com/syndtr/goleveldb/leveldb/filter"
)

// HashSetFilter is a custom filter policy (exact set of 32-bit key hashes):
// it never reports a false negative. It serves as the "another policy" in
// AltFilters scenarios.
type HashSetFilter struct{}

func hs32(k []byte) uint32 {
	h := fnv.New32a()
	h.Write(k)
	return h.Sum32()
}

// Name implements filter.Filter.
func (HashSetFilter) Name() string { return "verif.HashSet" }

// NewGenerator implements filter.Filter.
func (HashSetFilter) NewGenerator() filter.FilterGenerator { return &hsGen{} }

// Contains implements filter.Filter.
func (HashSetFilter) Contains(f, key []byte) bool {
	n := len(f) / 4
	h := hs32(key)
	i := sort.Search(n, func(i int) bool { return binary.LittleEndian.Uint32(f[4*i:]) >= h })
	return i < n && binary.LittleEndian.Uint32(f[4*i:]) == h
}

type hsGen struct{ hs []uint32 }

func (g *hsGen) Add(key []byte) { g.hs = append(g.hs, hs32(key)) }

func (g *hsGen) Generate(b filter.Buffer) {
	sort.Slice(g.hs, func(i, j int) bool { return g.hs[i] < g.hs[j] })
	out := b.Alloc(4 * len(g.hs))
	for i, h := range g.hs {
		binary.LittleEndian.PutUint32(out[4*i:], h)
	}
	g.hs = g.hs[:0]
}

// FilterByName returns the filter policy for a short name: none, bloom<N>, hashset.
func FilterByName(name string) filter.Filter {
	switch name {
	case "", "none":
		return nil
	case "hashset":
		return HashSetFilter{}
	case "bloom1":
		return filter.NewBloomFilter(1)
	case "bloom10":
		return filter.NewBloomFilter(10)
	case "bloom64":
		return filter.NewBloomFilter(64)
	}
	return filter.NewBloomFilter(10)
}
