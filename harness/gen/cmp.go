// Package gen holds the generators: comparers, option sets, key pools,
// values, ranges and walks. Everything a case needs is drawn through rapid
// and stored in plain serialisable structs.
package gen

import (
	"bytes"

	"github.com/syndtr/goleveldb/leveldb/comparer"
)

// Comparer ids. All of them satisfy the documented contract of
// comparer.BasicComparer: a total order, equality only for identical
// contents, the empty slice smallest.
var ComparerIDs = []string{
	"bytewise",
	"inv", "inv-nil", "inv-same", // bytes mapped through x -> 255-x; three Separator/Successor styles
	"xor55",    // bytes mapped through x -> x^0x55
	"lenfirst", // shorter first, then bytewise
	"revstr",   // compare the reversed strings bytewise
}

// Comparer returns the comparer for id.
func Comparer(id string) comparer.Comparer {
	switch id {
	case "", "bytewise":
		return comparer.DefaultComparer
	case "inv":
		return &mapped{name: "verif.inv", f: func(x byte) byte { return 255 - x }, style: 0}
	case "inv-nil":
		return &mapped{name: "verif.inv", f: func(x byte) byte { return 255 - x }, style: 1}
	case "inv-same":
		return &mapped{name: "verif.inv", f: func(x byte) byte { return 255 - x }, style: 2}
	case "xor55":
		return &mapped{name: "verif.xor55", f: func(x byte) byte { return x ^ 0x55 }, style: 0}
	case "lenfirst":
		return lenFirst{}
	case "revstr":
		return revStr{}
	}
	panic("unknown comparer " + id)
}

// mapped orders keys by the bytewise order of their images under an
// involutive byte permutation f (f(f(x)) == x).
type mapped struct {
	name  string
	f     func(byte) byte
	style int // 0: shorten via the bytewise rules on images; 1: always nil; 2: return the unshortened argument
}

func (m *mapped) img(a []byte) []byte {
	r := make([]byte, len(a))
	for i, c := range a {
		r[i] = m.f(c)
	}
	return r
}

func (m *mapped) Compare(a, b []byte) int {
	n := len(a)
	if len(b) < n {
		n = len(b)
	}
	for i := 0; i < n; i++ {
		x, y := m.f(a[i]), m.f(b[i])
		if x < y {
			return -1
		} else if x > y {
			return 1
		}
	}
	switch {
	case len(a) < len(b):
		return -1
	case len(a) > len(b):
		return 1
	}
	return 0
}

func (m *mapped) Name() string { return m.name }

func (m *mapped) Separator(dst, a, b []byte) []byte {
	switch m.style {
	case 1:
		return nil
	case 2:
		return append(dst, a...)
	}
	s := comparer.DefaultComparer.Separator(nil, m.img(a), m.img(b))
	if s == nil {
		return nil
	}
	return append(dst, m.img(s)...)
}

func (m *mapped) Successor(dst, b []byte) []byte {
	switch m.style {
	case 1:
		return nil
	case 2:
		return append(dst, b...)
	}
	s := comparer.DefaultComparer.Successor(nil, m.img(b))
	if s == nil {
		return nil
	}
	return append(dst, m.img(s)...)
}

type lenFirst struct{}

func (lenFirst) Compare(a, b []byte) int {
	switch {
	case len(a) < len(b):
		return -1
	case len(a) > len(b):
		return 1
	}
	return bytes.Compare(a, b)
}
func (lenFirst) Name() string                      { return "verif.lenfirst" }
func (lenFirst) Separator(dst, a, b []byte) []byte { return nil }
func (lenFirst) Successor(dst, b []byte) []byte    { return nil }

type revStr struct{}

func rev(a []byte) []byte {
	r := make([]byte, len(a))
	for i, c := range a {
		r[len(a)-1-i] = c
	}
	return r
}

func (revStr) Compare(a, b []byte) int {
	i, j := len(a)-1, len(b)-1
	for i >= 0 && j >= 0 {
		if a[i] < b[j] {
			return -1
		} else if a[i] > b[j] {
			return 1
		}
		i--
		j--
	}
	switch {
	case i < 0 && j >= 0:
		return -1
	case i >= 0 && j < 0:
		return 1
	}
	return 0
}
func (revStr) Name() string { return "verif.revstr" }
func (revStr) Separator(dst, a, b []byte) []byte {
	s := comparer.DefaultComparer.Separator(nil, rev(a), rev(b))
	if s == nil {
		return nil
	}
	return append(dst, rev(s)...)
}
func (revStr) Successor(dst, b []byte) []byte {
	s := comparer.DefaultComparer.Successor(nil, rev(b))
	if s == nil {
		return nil
	}
	return append(dst, rev(s)...)
}
