package gen

import (
	"bytes"

	"pgregory.net/rapid"
)

var alphabet = []byte{0x00, 'a', 'b', 0x7f, 0xff}

// DrawKey draws one hostile key: short strings over a five-letter alphabet
// (dense collisions, prefixes of each other, 0xff runs, the empty key), a
// long-shared-prefix family and rarely a large key.
func DrawKey(t *rapid.T, label string) []byte {
	switch rapid.IntRange(0, 19).Draw(t, label+".fam") {
	case 0, 1, 2:
		// long shared prefix + short distinguishing suffix
		n := rapid.SampledFrom([]int{16, 31, 32, 33, 100, 300}).Draw(t, label+".plen")
		p := bytes.Repeat([]byte{'p'}, n)
		sfx := rapid.SliceOfN(rapid.SampledFrom(alphabet), 0, 3).Draw(t, label+".sfx")
		return append(p, sfx...)
	case 3:
		if rapid.IntRange(0, 3).Draw(t, label+".big") == 0 {
			n := rapid.SampledFrom([]int{1024, 2000, 4096}).Draw(t, label+".blen")
			k := bytes.Repeat([]byte{'K'}, n)
			k[n-1] = rapid.SampledFrom(alphabet).Draw(t, label+".bl")
			return k
		}
		// arbitrary bytes
		return rapid.SliceOfN(rapid.Byte(), 0, 8).Draw(t, label+".arb")
	default:
		return rapid.SliceOfN(rapid.SampledFrom(alphabet), 0, 6).Draw(t, label+".s")
	}
}

// DrawKeyPool draws a pool of distinct keys; operations refer to keys by
// index so that overwrites, deletes and probes hit each other often.
func DrawKeyPool(t *rapid.T, min, max int) []Hex {
	kg := rapid.Custom(func(t *rapid.T) Hex {
		k := DrawKey(t, "key")
		if k == nil {
			k = []byte{}
		}
		return Hex(k)
	})
	return rapid.SliceOfNDistinct(kg, min, max, func(h Hex) string { return string(h) }).Draw(t, "keys")
}

// VSpec describes a value: Len filler bytes (Fill 0: compressible, 1:
// incompressible), preceded by a tag identifying the writing operation unless
// Raw is set (then the value is exactly the filler, possibly empty).
type VSpec struct {
	Len  int  `json:"n"`
	Fill int  `json:"f,omitempty"`
	Raw  bool `json:"raw,omitempty"`
}

// DrawVSpec draws a value spec; sizes: empty, small, around a block, larger
// than a block, larger than the write buffer (rare).
func DrawVSpec(t *rapid.T, label string, allowRaw bool, maxLen int) VSpec {
	var v VSpec
	switch rapid.IntRange(0, 15).Draw(t, label+".vk") {
	case 0:
		v.Len = 0
		v.Raw = allowRaw
	case 1, 2, 3, 4, 5, 6, 7:
		v.Len = rapid.IntRange(0, 32).Draw(t, label+".vl")
	case 8, 9, 10, 11:
		v.Len = rapid.SampledFrom([]int{60, 120, 200, 250, 260, 300}).Draw(t, label+".vl")
	case 12, 13:
		v.Len = rapid.SampledFrom([]int{500, 700, 1100}).Draw(t, label+".vl")
	case 14:
		v.Len = rapid.SampledFrom([]int{2100, 4200}).Draw(t, label+".vl")
	default:
		v.Len = rapid.SampledFrom([]int{0, 1, 5000, 9000}).Draw(t, label+".vl")
	}
	if maxLen > 0 && v.Len > maxLen {
		v.Len = maxLen
	}
	v.Fill = rapid.IntRange(0, 1).Draw(t, label+".vf")
	return v
}

// Bytes materialises the value for the operation tag.
func (v VSpec) Bytes(tag string) []byte {
	var b []byte
	if !v.Raw {
		b = append(b, tag...)
		b = append(b, '|')
	}
	if v.Fill == 0 {
		for i := 0; i < v.Len; i++ {
			b = append(b, 'x')
		}
	} else {
		h := uint32(2166136261)
		for i := 0; i < len(tag); i++ {
			h = (h ^ uint32(tag[i])) * 16777619
		}
		for i := 0; i < v.Len; i++ {
			h = h*1664525 + 1013904223
			b = append(b, byte(h>>24))
		}
	}
	if b == nil {
		b = []byte{}
	}
	return b
}
