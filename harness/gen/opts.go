package gen

import (
	"encoding/hex"
	"encoding/json"

	"github.com/syndtr/goleveldb/leveldb/filter"
	"github.com/syndtr/goleveldb/leveldb/opt"
	"pgregory.net/rapid"
)

// Hex is a byte string that serialises as hex.
type Hex []byte

// MarshalJSON implements json.Marshaler.
func (h Hex) MarshalJSON() ([]byte, error) {
	if h == nil {
		return []byte("null"), nil
	}
	return json.Marshal(hex.EncodeToString(h))
}

// UnmarshalJSON implements json.Unmarshaler.
func (h *Hex) UnmarshalJSON(b []byte) error {
	if string(b) == "null" {
		*h = nil
		return nil
	}
	var s string
	if err := json.Unmarshal(b, &s); err != nil {
		return err
	}
	d, err := hex.DecodeString(s)
	if err != nil {
		return err
	}
	if d == nil {
		d = []byte{}
	}
	*h = d
	return nil
}

// OptSpec is a serialisable option set. Zero fields mean "library default".
type OptSpec struct {
	WriteBuffer       int       `json:"wb,omitempty"`
	TableSize         int       `json:"ts,omitempty"`
	TableSizeMult     float64   `json:"tsm,omitempty"`
	TotalSize         int       `json:"tot,omitempty"`
	TotalSizeMult     float64   `json:"totm,omitempty"`
	BlockSize         int       `json:"bs,omitempty"`
	RestartInterval   int       `json:"ri,omitempty"`
	NoCompression     bool      `json:"nocomp,omitempty"`
	FilterBits        int       `json:"fbits,omitempty"` // 0 = no filter
	AltFilterBits     int       `json:"altfbits,omitempty"`
	FilterBaseLg      int       `json:"fbase,omitempty"`
	DisableBlockCache bool      `json:"nobc,omitempty"`
	BlockCacheCap     int       `json:"bcc,omitempty"`
	OpenFilesCap      int       `json:"ofc,omitempty"`
	DisableBufferPool bool      `json:"nobp,omitempty"`
	DisableSeeksComp  bool      `json:"noseek,omitempty"`
	IterSamplingRate  int       `json:"isr,omitempty"`
	NoWriteMerge      bool      `json:"nomerge,omitempty"`
	DisableLargeBatch bool      `json:"nolbt,omitempty"`
	L0Trigger         int       `json:"l0,omitempty"`
	L0Slowdown        int       `json:"l0s,omitempty"`
	L0Pause           int       `json:"l0p,omitempty"`
	GPOverlapsFactor  int       `json:"gpo,omitempty"`
	ExpandLimitFactor int       `json:"exp,omitempty"`
	SourceLimitFactor int       `json:"src,omitempty"`
	MaxManifestSize   int64     `json:"mms,omitempty"`
	EvictRemoved      bool      `json:"evict,omitempty"`
	DisableBackoff    bool      `json:"nobackoff,omitempty"`
	NoSync            bool      `json:"nosync,omitempty"`
	StrictAll         bool      `json:"strictall,omitempty"`
	Strict            int       `json:"strict,omitempty"`    // 0 default, 1 opt.NoStrict, 2 opt.StrictAll (fault-free checks only: must be invisible)
	TSMPerLevel       []float64 `json:"tsmpl,omitempty"`     // CompactionTableSizeMultiplierPerLevel
	TotMPerLevel      []float64 `json:"totmpl,omitempty"`    // CompactionTotalSizeMultiplierPerLevel
	NoCachers         int       `json:"nocachers,omitempty"` // bit 0: BlockCacher = NoCacher, bit 1: OpenFilesCacher = NoCacher
}

// Build turns the spec into goleveldb options.
func (s OptSpec) Build(cmpID string) *opt.Options {
	o := &opt.Options{
		Comparer:                      Comparer(cmpID),
		WriteBuffer:                   s.WriteBuffer,
		CompactionTableSize:           s.TableSize,
		CompactionTableSizeMultiplier: s.TableSizeMult,
		CompactionTotalSize:           s.TotalSize,
		CompactionTotalSizeMultiplier: s.TotalSizeMult,
		BlockSize:                     s.BlockSize,
		BlockRestartInterval:          s.RestartInterval,
		FilterBaseLg:                  s.FilterBaseLg,
		DisableBlockCache:             s.DisableBlockCache,
		BlockCacheCapacity:            s.BlockCacheCap,
		OpenFilesCacheCapacity:        s.OpenFilesCap,
		DisableBufferPool:             s.DisableBufferPool,
		DisableSeeksCompaction:        s.DisableSeeksComp,
		IteratorSamplingRate:          s.IterSamplingRate,
		NoWriteMerge:                  s.NoWriteMerge,
		DisableLargeBatchTransaction:  s.DisableLargeBatch,
		CompactionL0Trigger:           s.L0Trigger,
		WriteL0SlowdownTrigger:        s.L0Slowdown,
		WriteL0PauseTrigger:           s.L0Pause,
		CompactionGPOverlapsFactor:    s.GPOverlapsFactor,
		CompactionExpandLimitFactor:   s.ExpandLimitFactor,
		CompactionSourceLimitFactor:   s.SourceLimitFactor,
		MaxManifestFileSize:           s.MaxManifestSize,
		BlockCacheEvictRemoved:        s.EvictRemoved,
		DisableCompactionBackoff:      s.DisableBackoff,
		NoSync:                        s.NoSync,
	}
	if s.NoCompression {
		o.Compression = opt.NoCompression
	}
	if s.FilterBits > 0 {
		o.Filter = filter.NewBloomFilter(s.FilterBits)
	}
	if s.AltFilterBits > 0 {
		o.AltFilters = []filter.Filter{filter.NewBloomFilter(s.AltFilterBits)}
	}
	if s.StrictAll {
		o.Strict = opt.StrictAll
	}
	switch s.Strict {
	case 1:
		o.Strict = opt.NoStrict
	case 2:
		o.Strict = opt.StrictAll
	}
	o.CompactionTableSizeMultiplierPerLevel = s.TSMPerLevel
	o.CompactionTotalSizeMultiplierPerLevel = s.TotMPerLevel
	if s.NoCachers&1 != 0 {
		o.BlockCacher = opt.NoCacher
	}
	if s.NoCachers&2 != 0 {
		o.OpenFilesCacher = opt.NoCacher
	}
	return o
}

func pick[T any](t *rapid.T, label string, vs ...T) T {
	return rapid.SampledFrom(vs).Draw(t, label)
}

// DrawOpts draws an option set with tiny sizes so that every physical
// mechanism is reachable with a few dozen small writes. Only values the
// option getters accept are generated and the documented implicit
// precondition L0Trigger <= Slowdown <= Pause is kept.
func DrawOpts(t *rapid.T) OptSpec {
	var s OptSpec
	s.WriteBuffer = pick(t, "wb", 256, 512, 1024, 1024, 2048, 4096, 65536)
	s.TableSize = pick(t, "ts", 512, 1024, 1024, 2048, 16384)
	s.TableSizeMult = pick(t, "tsm", 0.0, 1.0, 2.0)
	s.TotalSize = pick(t, "tot", 2048, 4096, 4096, 8192, 65536)
	s.TotalSizeMult = pick(t, "totm", 0.0, 2.0, 2.0, 4.0, 10.0)
	s.BlockSize = pick(t, "bs", 32, 128, 256, 256, 1024, 8192)
	s.RestartInterval = pick(t, "ri", 0, 1, 2, 4, 16, 32)
	s.NoCompression = rapid.Bool().Draw(t, "nocomp")
	s.FilterBits = pick(t, "fbits", 0, 0, 1, 10, 10, 64)
	s.FilterBaseLg = pick(t, "fbase", 0, 5, 7, 11, 14)
	s.DisableBlockCache = pick(t, "nobc", false, false, true)
	s.BlockCacheCap = pick(t, "bcc", 0, -1, 1, 512, 4096, 1<<20)
	s.OpenFilesCap = pick(t, "ofc", 0, -1, 1, 2, 8)
	s.DisableBufferPool = pick(t, "nobp", false, false, true)
	s.DisableSeeksComp = pick(t, "noseek", false, true, true)
	s.IterSamplingRate = pick(t, "isr", 0, -1, 64, 512)
	s.NoWriteMerge = pick(t, "nomerge", false, false, true)
	s.DisableLargeBatch = pick(t, "nolbt", false, false, true)
	s.L0Trigger = pick(t, "l0", 1, 2, 2, 3, 4)
	s.L0Slowdown = s.L0Trigger + pick(t, "l0s", 2, 4, 6)
	s.L0Pause = s.L0Slowdown + pick(t, "l0p", 0, 2, 4)
	s.GPOverlapsFactor = pick(t, "gpo", 0, 1, 2, 10, 25)
	s.ExpandLimitFactor = pick(t, "exp", 0, 1, 3, 25)
	s.SourceLimitFactor = pick(t, "src", 0, 1, 3, 25)
	s.MaxManifestSize = pick(t, "mms", int64(0), 0, 1, 64, 1024)
	s.EvictRemoved = pick(t, "evict", false, true)
	s.DisableBackoff = true
	s.TSMPerLevel = pick(t, "tsmpl", []float64(nil), nil, nil, []float64{2}, []float64{1, 2, 1}, []float64{1, 1, 4})
	s.TotMPerLevel = pick(t, "totmpl", []float64(nil), nil, nil, []float64{2, 3}, []float64{1, 4, 2})
	s.NoCachers = pick(t, "nocachers", 0, 0, 0, 0, 1, 2, 3)
	return s
}
