// Package model holds the reference models: an ordered map under a
// comparer, a cursor over a sorted list, and the subset solver used by the
// crash and fault oracles.
package model

import (
	"fmt"
	"sort"
)

// Compare is a key ordering.
type Compare func(a, b []byte) int

// KV is a key/value pair.
type KV struct {
	K, V []byte
}

// Map is a plain map; ordering is imposed on demand.
type Map struct {
	m map[string][]byte
}

// NewMap returns an empty map.
func NewMap() *Map { return &Map{m: map[string][]byte{}} }

// Put stores a copy of v under k.
func (m *Map) Put(k, v []byte) { m.m[string(k)] = append([]byte{}, v...) }

// Delete removes k.
func (m *Map) Delete(k []byte) { delete(m.m, string(k)) }

// Get returns the value and whether it exists.
func (m *Map) Get(k []byte) ([]byte, bool) { v, ok := m.m[string(k)]; return v, ok }

// Len returns the number of keys.
func (m *Map) Len() int { return len(m.m) }

// Clone returns a persistent copy (values are shared, they are immutable).
func (m *Map) Clone() *Map {
	c := &Map{m: make(map[string][]byte, len(m.m))}
	for k, v := range m.m {
		c.m[k] = v
	}
	return c
}

// Sorted returns the pairs with Start <= k < Limit (nil = unbounded) in cmp order.
func (m *Map) Sorted(cmp Compare, start, limit []byte) []KV {
	r := make([]KV, 0, len(m.m))
	for k, v := range m.m {
		kb := []byte(k)
		if start != nil && cmp(kb, start) < 0 {
			continue
		}
		if limit != nil && cmp(kb, limit) >= 0 {
			continue
		}
		r = append(r, KV{kb, v})
	}
	sort.Slice(r, func(i, j int) bool { return cmp(r[i].K, r[j].K) < 0 })
	return r
}

// Raw exposes the underlying map (read-only use).
func (m *Map) Raw() map[string][]byte { return m.m }

// Cursor is the reference iterator: a position in -1..n over a sorted list.
type Cursor struct {
	L   []KV
	P   int
	Cmp Compare
}

// NewCursor returns a cursor before the first element.
func NewCursor(l []KV, cmp Compare) *Cursor { return &Cursor{L: l, P: -1, Cmp: cmp} }

// Valid reports whether the cursor is on an element.
func (c *Cursor) Valid() bool { return c.P >= 0 && c.P < len(c.L) }

// First moves to the first element.
func (c *Cursor) First() bool { c.P = 0; return c.fix() }

// Last moves to the last element.
func (c *Cursor) Last() bool { c.P = len(c.L) - 1; return c.fix() }

func (c *Cursor) fix() bool {
	if len(c.L) == 0 {
		// First on an empty list ends after the end, Last before the start;
		// both are simply invalid.
		return false
	}
	return c.Valid()
}

// Seek moves to the first element >= k.
func (c *Cursor) Seek(k []byte) bool {
	c.P = sort.Search(len(c.L), func(i int) bool { return c.Cmp(c.L[i].K, k) >= 0 })
	return c.Valid()
}

// Next advances.
func (c *Cursor) Next() bool {
	if c.P < len(c.L) {
		c.P++
	}
	return c.Valid()
}

// Prev steps back.
func (c *Cursor) Prev() bool {
	if c.P > -1 {
		c.P--
	}
	return c.Valid()
}

// Cur returns the current pair.
func (c *Cursor) Cur() KV { return c.L[c.P] }

// ---------------------------------------------------------------- solver

// BOp is one operation of a batch.
type BOp struct {
	Del bool
	K   string
	V   string
}

// Batch is one issued atomic write.
type Batch struct {
	ID        int
	Ops       []BOp
	Mandatory bool
}

func (b *Batch) final() map[string]*BOp {
	m := map[string]*BOp{}
	for i := range b.Ops {
		m[b.Ops[i].K] = &b.Ops[i]
	}
	return m
}

// Solve decides whether the observed contents R equal apply(S) for some S
// with mandatory ⊆ S ⊆ issued (applied in issue order). base is the state the
// issued batches are applied on top of (may be nil). Values must identify
// their writer (unique per batch and key). It returns "" if R is explainable,
// otherwise the reason.
func Solve(base map[string]string, issued []*Batch, R map[string]string) string {
	excl := make([]bool, len(issued))
	fin := make([]map[string]*BOp, len(issued))
	for i, b := range issued {
		fin[i] = b.final()
	}
	keys := map[string]bool{}
	for i := range issued {
		for k := range fin[i] {
			keys[k] = true
		}
	}
	for k := range base {
		keys[k] = true
	}
	for k := range R {
		keys[k] = true
	}
	// (i) writer of each observed value; every later toucher is excluded.
	for k, v := range R {
		w := -2
		if bv, ok := base[k]; ok && bv == v {
			w = -1
		}
		for i := range issued {
			if o, ok := fin[i][k]; ok && !o.Del && o.V == v {
				w = i
			}
		}
		if w == -2 {
			return fmt.Sprintf("key %q has value %.40q which is not the final effect of any issued batch nor the base value", k, v)
		}
		for i := w + 1; i < len(issued); i++ {
			if _, ok := fin[i][k]; ok {
				excl[i] = true
			}
		}
	}
	// (ii) k absent from R: the last non-excluded toucher must not be a Put;
	// if no toucher remains the base must not have k.
	for changed := true; changed; {
		changed = false
		for k := range keys {
			if _, ok := R[k]; ok {
				continue
			}
			for i := len(issued) - 1; i >= 0; i-- {
				if excl[i] {
					continue
				}
				if o, ok := fin[i][k]; ok {
					if !o.Del {
						excl[i] = true
						changed = true
					}
					break
				}
			}
		}
	}
	// validate S* = issued \ excl
	got := map[string]string{}
	for k, v := range base {
		got[k] = v
	}
	for i, b := range issued {
		if excl[i] {
			if b.Mandatory {
				return fmt.Sprintf("acknowledged batch #%d (%s) cannot be part of any explanation of the observed contents", b.ID, descr(b))
			}
			continue
		}
		for k, o := range fin[i] {
			if o.Del {
				delete(got, k)
			} else {
				got[k] = o.V
			}
		}
	}
	for k, v := range R {
		gv, ok := got[k]
		if !ok {
			return fmt.Sprintf("key %q=%.40q observed, but the maximal admissible subset does not contain it", k, v)
		}
		if gv != v {
			return fmt.Sprintf("key %q: observed %.40q, maximal admissible subset gives %.40q", k, v, gv)
		}
	}
	for k, v := range got {
		if _, ok := R[k]; !ok {
			return fmt.Sprintf("key %q=%.40q missing from the observed contents although no admissible subset removes it", k, v)
		}
	}
	return ""
}

func descr(b *Batch) string {
	s := ""
	for i, o := range b.Ops {
		if i >= 4 {
			s += "…"
			break
		}
		if o.Del {
			s += fmt.Sprintf("del %q;", o.K)
		} else {
			s += fmt.Sprintf("put %q=%.20q;", o.K, o.V)
		}
	}
	return s
}
