package dbm

import (
	"encoding/json"
	"time"

	"verif/gen"
)

func cloneCase(c *Case) *Case {
	b, _ := json.Marshal(c)
	n := &Case{}
	json.Unmarshal(b, n)
	return n
}

// Shrink minimises a failing case at the level of the case structure (it does
// not depend on the generator): it tries the deterministic-layout mode,
// removes operations (delta debugging), simplifies the remaining operations,
// resets options to their defaults and shortens keys, keeping each change only
// if fails still reports a failure. fails should itself repeat
// schedule-dependent cases a few times.
func Shrink(c *Case, fails func(*Case) bool, budget time.Duration) *Case {
	deadline := time.Now().Add(budget)
	cur := cloneCase(c)
	try := func(mod func(n *Case) bool) bool {
		if time.Now().After(deadline) {
			return false
		}
		n := cloneCase(cur)
		if !mod(n) {
			return false
		}
		if fails(n) {
			cur = n
			return true
		}
		return false
	}
	if !cur.Det {
		try(func(n *Case) bool { n.Det = true; return true })
	}
	for round := 0; round < 3 && time.Now().Before(deadline); round++ {
		progress := false
		// 1. remove operations: chunks of decreasing size
		for size := len(cur.Ops) / 2; size >= 1; size /= 2 {
			for i := 0; i+size <= len(cur.Ops); {
				if try(func(n *Case) bool {
					n.Ops = append(n.Ops[:i:i], n.Ops[i+size:]...)
					return true
				}) {
					progress = true
				} else {
					i += size
				}
				if time.Now().After(deadline) {
					break
				}
			}
		}
		// 2. simplify operations
		for i := range cur.Ops {
			if len(cur.Ops[i].Walk) > 1 {
				for size := len(cur.Ops[i].Walk) / 2; size >= 1; size /= 2 {
					for j := 0; j+size <= len(cur.Ops[i].Walk); {
						if !try(func(n *Case) bool {
							w := n.Ops[i].Walk
							n.Ops[i].Walk = append(w[:j:j], w[j+size:]...)
							return len(n.Ops[i].Walk) > 0
						}) {
							j += size
						} else {
							progress = true
						}
					}
				}
			}
			for len(cur.Ops[i].B) > 1 {
				shr := false
				for j := range cur.Ops[i].B {
					if try(func(n *Case) bool {
						b := n.Ops[i].B
						n.Ops[i].B = append(b[:j:j], b[j+1:]...)
						return true
					}) {
						shr, progress = true, true
						break
					}
				}
				if !shr {
					break
				}
			}
			for j := range cur.Ops[i].B {
				if cur.Ops[i].B[j].V.Len > 0 {
					if !try(func(n *Case) bool { n.Ops[i].B[j].V = gen.VSpec{Len: 0}; return true }) {
						try(func(n *Case) bool { n.Ops[i].B[j].V.Len /= 2; return true })
					}
				}
			}
			if cur.Ops[i].V.Len > 0 {
				if !try(func(n *Case) bool { n.Ops[i].V = gen.VSpec{Len: 0}; return true }) {
					for k := 0; k < 4 && try(func(n *Case) bool { n.Ops[i].V.Len /= 2; return n.Ops[i].V.Len > 0 }); k++ {
					}
				}
			}
			if cur.Ops[i].Sync || cur.Ops[i].NoMerge {
				try(func(n *Case) bool { n.Ops[i].Sync, n.Ops[i].NoMerge = false, false; return true })
			}
			if cur.Ops[i].S != nil {
				try(func(n *Case) bool { n.Ops[i].S = nil; return true })
			}
			if cur.Ops[i].L != nil {
				try(func(n *Case) bool { n.Ops[i].L = nil; return true })
			}
		}
		// 3. options to defaults, one field at a time
		var zero gen.OptSpec
		zb, _ := json.Marshal(zero)
		var zm map[string]any
		json.Unmarshal(zb, &zm)
		ob, _ := json.Marshal(cur.Opts)
		var om map[string]any
		json.Unmarshal(ob, &om)
		for field := range om {
			if field == "nobackoff" {
				continue
			}
			if try(func(n *Case) bool {
				b, _ := json.Marshal(n.Opts)
				var m map[string]any
				json.Unmarshal(b, &m)
				delete(m, field)
				b, _ = json.Marshal(m)
				var o gen.OptSpec
				if json.Unmarshal(b, &o) != nil {
					return false
				}
				n.Opts = o
				return true
			}) {
				progress = true
			}
		}
		if cur.Cmp != "bytewise" {
			try(func(n *Case) bool { n.Cmp = "bytewise"; return true })
		}
		// 4. shorter keys
		for i := range cur.Keys {
			if len(cur.Keys[i]) > 2 {
				try(func(n *Case) bool { n.Keys[i] = gen.Hex{'k', byte('A' + i%26), byte('a' + i/26)}; return true })
			}
		}
		if !progress {
			break
		}
	}
	cur.Note = "shrunk by dbm.Shrink"
	return cur
}
