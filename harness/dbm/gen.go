package dbm

import (
	"pgregory.net/rapid"

	"verif/gen"
)

// Profile steers the operation mix of generated cases.
type Profile struct {
	Prop              string
	MinOps, MaxOps    int
	MinKeys           int
	MaxKeys           int
	W                 map[string]int // weight per op type
	Tree              bool
	Files             bool
	Poison            bool
	SlowFlushPercent  int
	SlowRemovePercent int
	TrSpillPercent    int // share of the cases that get a spliced-in fragment: a transaction that spills into tables of its own, is read through and discarded, directly followed by another table builder
	StrictVariants    bool // draw Options.Strict from {default, NoStrict, StrictAll}: must be invisible without faults
	DetPercent        int  // percentage of cases with deterministic layout (wait for idle after every write)
	MaxVal            int
	Comparers         []string
	Tweak             func(t *rapid.T, o *gen.OptSpec)
}

func drawRange(t *rapid.T, nkeys int) (s, l *int) {
	if rapid.IntRange(0, 9).Draw(t, "rs") >= 4 {
		v := rapid.IntRange(0, nkeys-1).Draw(t, "rsk")
		s = &v
	}
	if rapid.IntRange(0, 9).Draw(t, "rl") >= 4 {
		v := rapid.IntRange(0, nkeys-1).Draw(t, "rlk")
		l = &v
	}
	return
}

var moveKinds = []string{"next", "next", "next", "next", "next", "next", "next",
	"prev", "prev", "prev", "prev", "prev", "prev",
	"seek", "seek", "seek", "seek", "first", "last", "last"}

// DrawWalk draws a movement sequence.
func DrawWalk(t *rapid.T, nkeys, maxLen int) []Move {
	mg := rapid.Custom(func(t *rapid.T) Move {
		m := Move{M: rapid.SampledFrom(moveKinds).Draw(t, "mv")}
		if m.M == "seek" {
			m.K = rapid.IntRange(0, nkeys-1).Draw(t, "mk")
		}
		return m
	})
	return rapid.SliceOfN(mg, 1, maxLen).Draw(t, "walk")
}

func drawBatch(t *rapid.T, nkeys, maxOps, maxVal int, raw bool) []BOp {
	bg := rapid.Custom(func(t *rapid.T) BOp {
		bo := BOp{K: rapid.IntRange(0, nkeys-1).Draw(t, "bk")}
		if rapid.IntRange(0, 3).Draw(t, "bdel") == 0 {
			bo.Del = true
		} else {
			bo.V = gen.DrawVSpec(t, "bv", raw, maxVal)
		}
		return bo
	})
	return rapid.SliceOfN(bg, 1, maxOps).Draw(t, "batch")
}

// Draw draws a case for the profile.
func Draw(t *rapid.T, p *Profile) *Case {
	c := &Case{Prop: p.Prop, Tree: p.Tree, Files: p.Files, Poison: p.Poison}
	c.Opts = gen.DrawOpts(t)
	if p.Tweak != nil {
		p.Tweak(t, &c.Opts)
	}
	cmps := p.Comparers
	if cmps == nil {
		cmps = []string{"bytewise", "bytewise", "bytewise", "inv", "inv-nil", "inv-same", "xor55", "lenfirst", "revstr"}
	}
	c.Cmp = rapid.SampledFrom(cmps).Draw(t, "cmp")
	minK, maxK := p.MinKeys, p.MaxKeys
	if minK == 0 {
		minK, maxK = 3, 40
	}
	c.Keys = gen.DrawKeyPool(t, minK, maxK)
	nk := len(c.Keys)
	if p.SlowFlushPercent > 0 {
		c.SlowFlush = rapid.SampledFrom([]int{5, 15, 25, 35, 45, 55, 65, 75, 85, 95}).Draw(t, "slowflush") < p.SlowFlushPercent
	}
	if p.StrictVariants {
		c.Opts.Strict = rapid.SampledFrom([]int{0, 0, 1, 2}).Draw(t, "strict")
	}
	if p.SlowRemovePercent > 0 {
		c.SlowRemove = rapid.SampledFrom([]int{5, 15, 25, 35, 45, 55, 65, 75, 85, 95}).Draw(t, "slowremove") < p.SlowRemovePercent
	}
	c.Det = rapid.SampledFrom([]int{5, 15, 25, 35, 45, 55, 65, 75, 85, 95}).Draw(t, "det") < p.DetPercent
	var kinds []string
	for _, k := range opOrder {
		for i := 0; i < p.W[k]; i++ {
			kinds = append(kinds, k)
		}
	}
	raw := !p.Tree // tagged values are not needed by the sequential oracles, but harmless
	opGen := rapid.Custom(func(t *rapid.T) Op {
		op := Op{T: rapid.SampledFrom(kinds).Draw(t, "op")}
		switch op.T {
		case "put":
			op.K = rapid.IntRange(0, nk-1).Draw(t, "k")
			op.V = gen.DrawVSpec(t, "v", raw, p.MaxVal)
			op.Sync = rapid.IntRange(0, 7).Draw(t, "sync") == 0
			op.NoMerge = rapid.IntRange(0, 7).Draw(t, "nm") == 0
		case "del":
			op.K = rapid.IntRange(0, nk-1).Draw(t, "k")
			op.Sync = rapid.IntRange(0, 7).Draw(t, "sync") == 0
		case "batch":
			op.B = drawBatch(t, nk, 12, p.MaxVal, raw)
			op.Sync = rapid.IntRange(0, 7).Draw(t, "sync") == 0
		case "bigbatch":
			// a batch larger than the write buffer (routed through a transaction unless disabled)
			op.T = "batch"
			wb := c.Opts.WriteBuffer
			if wb > 4096 {
				wb = 4096
			}
			m := rapid.IntRange(2, 6).Draw(t, "bbn")
			for j := 0; j < m; j++ {
				bo := BOp{K: rapid.IntRange(0, nk-1).Draw(t, "bk")}
				if rapid.IntRange(0, 5).Draw(t, "bdel") == 0 {
					bo.Del = true
				} else {
					bo.V = gen.VSpec{Len: wb/2 + rapid.IntRange(0, 64).Draw(t, "bbx"), Fill: rapid.IntRange(0, 1).Draw(t, "bbf")}
				}
				op.B = append(op.B, bo)
			}
			op.B = append(op.B, BOp{K: rapid.IntRange(0, nk-1).Draw(t, "bk"), V: gen.VSpec{Len: wb/2 + 70}})
			op.B = append(op.B, BOp{K: rapid.IntRange(0, nk-1).Draw(t, "bk"), V: gen.VSpec{Len: wb/2 + 70, Fill: 1}})
		case "get", "has", "trget":
			op.K = rapid.IntRange(0, nk-1).Draw(t, "k")
			if rapid.IntRange(0, 2).Draw(t, "gsrc") == 0 {
				op.Src = "tr"
			}
		case "compact":
			if rapid.IntRange(0, 2).Draw(t, "full") != 0 {
				op.S, op.L = drawRange(t, nk)
			}
		case "snapget":
			op.K = rapid.IntRange(0, nk-1).Draw(t, "k")
			op.Slot = rapid.IntRange(0, 5).Draw(t, "slot")
		case "snaprel":
			op.K = rapid.IntRange(0, nk-1).Draw(t, "k")
			op.Slot = rapid.IntRange(0, 5).Draw(t, "slot")
		case "iter":
			op.Src = rapid.SampledFrom([]string{"db", "db", "snap", "tr"}).Draw(t, "src")
			op.Slot = rapid.IntRange(0, 5).Draw(t, "slot")
			op.S, op.L = drawRange(t, nk)
		case "iterwalk":
			op.Slot = rapid.IntRange(0, 3).Draw(t, "slot")
			op.Walk = DrawWalk(t, nk, 12)
		case "iterrel":
			op.Slot = rapid.IntRange(0, 3).Draw(t, "slot")
		case "sizeof":
			op.K = rapid.IntRange(0, nk-1).Draw(t, "k")
			op.S, op.L = drawRange(t, nk)
		case "churn":
			op.K = rapid.IntRange(0, nk-1).Draw(t, "k")
			op.Slot = rapid.SampledFrom([]int{20, 20, 60, 300}).Draw(t, "churnn")
			if st := rapid.SampledFrom([]int{0, 0, 5, 7}).Draw(t, "churnstride"); st > 0 {
				op.S = &st
				op.V.Len = rapid.SampledFrom([]int{2, 2, 3}).Draw(t, "churnparts")
			}
		case "scan":
			op.Src = rapid.SampledFrom([]string{"db", "db", "snap", "tr"}).Draw(t, "src")
			op.Slot = rapid.IntRange(0, 5).Draw(t, "slot")
			op.S, op.L = drawRange(t, nk)
			op.Walk = DrawWalk(t, nk, 30)
		}
		return op
	})
	// rapid's slice sizes are biased towards the minimum; draw a size class
	// first so that long histories (deep levels) are common.
	span := p.MaxOps - p.MinOps
	minOps := p.MinOps + rapid.SampledFrom([]int{0, 0, span / 8, span / 4, span / 2}).Draw(t, "sizeclass")
	c.Ops = rapid.SliceOfN(opGen, minOps, p.MaxOps).Draw(t, "ops")
	if p.TrSpillPercent > 0 && rapid.SampledFrom([]int{5, 15, 25, 35, 45, 55, 65, 75, 85, 95}).Draw(t, "trspill") < p.TrSpillPercent {
		// A transaction that outgrows its buffer (tables of its own), is read through (their blocks get cached)
		// and is discarded; the very next table - an oversized batch, i.e. another transaction's flush, not
		// preceded by a journal - is the one that can be given the removed table's file number. Random mixing
		// rarely puts these next to each other: a buffer rotation in between takes the number for a journal.
		wb := c.Opts.WriteBuffer
		if wb > 4096 {
			wb = 4096
		}
		var fr []Op
		fr = append(fr, Op{T: "tropen"})
		var ks []int
		for j := rapid.IntRange(2, 5).Draw(t, "spn"); j > 0; j-- {
			k := rapid.IntRange(0, nk-1).Draw(t, "spk")
			ks = append(ks, k)
			fr = append(fr, Op{T: "put", K: k, V: gen.VSpec{Len: wb/2 + 70, Fill: j % 2}})
		}
		for _, k := range ks {
			fr = append(fr, Op{T: "trget", K: k})
		}
		fr = append(fr, Op{T: rapid.SampledFrom([]string{"trdiscard", "trdiscard", "trcommit"}).Draw(t, "spend")})
		big := Op{T: "batch"}
		for j := 0; j < 3; j++ {
			k := ks[j%len(ks)]
			if j == 2 {
				k = rapid.IntRange(0, nk-1).Draw(t, "spk")
			}
			big.B = append(big.B, BOp{K: k, V: gen.VSpec{Len: wb/2 + 40 + j, Fill: (j + 1) % 2}})
			ks = append(ks, k)
		}
		fr = append(fr, big)
		for _, k := range ks {
			fr = append(fr, Op{T: "get", K: k})
		}
		at := rapid.IntRange(0, len(c.Ops)).Draw(t, "spat")
		c.Ops = append(append(append([]Op{}, c.Ops[:at]...), fr...), c.Ops[at:]...)
	}
	return c
}

var opOrder = []string{"put", "del", "batch", "bigbatch", "get", "has", "compact", "reopen", "idle",
	"snap", "snapget", "snaprel", "iter", "iterwalk", "iterrel", "scan",
	"tropen", "trget", "trcommit", "trdiscard", "churn", "recover", "sizeof"}
