package dbm

import (
	"bytes"
	"fmt"
	"sort"

	"github.com/syndtr/goleveldb/leveldb"
	"github.com/syndtr/goleveldb/leveldb/comparer"
	"github.com/syndtr/goleveldb/leveldb/opt"
	"github.com/syndtr/goleveldb/leveldb/storage"
	"github.com/syndtr/goleveldb/leveldb/table"

	"verif/vfs"
)

type seqRange struct{ min, max uint64 }

type tableSummary struct {
	gen         int64
	size        int
	n           int
	first, last []byte
	keys        map[string]seqRange
	err         string
}

// ReadTable reads a table file with the real internal comparer and
// summarises it: entry count, first/last internal key, per user key the range
// of sequence numbers, and the first ordering/parsing problem found.
func ReadTable(fs *vfs.FS, num int64, ucmp comparer.Comparer, o *opt.Options) (*tableSummary, error) {
	fd := storage.FileDesc{Type: storage.TypeTable, Num: num}
	n, _, gen, ok := fs.FileInfo(fd)
	if !ok {
		return nil, fmt.Errorf("table %d does not exist in storage", num)
	}
	r, err := fs.Open(fd)
	if err != nil {
		return nil, fmt.Errorf("table %d: open: %v", num, err)
	}
	defer r.Close()
	icmp := leveldb.VerifInternalComparer(ucmp)
	ro := &opt.Options{Comparer: icmp, Strict: opt.StrictAll, BlockSize: o.GetBlockSize(), Filter: o.GetFilter(), AltFilters: o.AltFilters}
	tr, err := table.NewReader(r, int64(n), fd, nil, nil, ro)
	if err != nil {
		return nil, fmt.Errorf("table %d: reader: %v", num, err)
	}
	defer tr.Release()
	s := &tableSummary{gen: gen, size: n, keys: map[string]seqRange{}}
	it := tr.NewIterator(nil, nil)
	defer it.Release()
	var prev []byte
	for it.Next() {
		k := it.Key()
		uk, seq, _, perr := leveldb.VerifParseInternalKey(k)
		if perr != nil {
			if s.err == "" {
				s.err = fmt.Sprintf("entry #%d does not parse as an internal key: %v", s.n, perr)
			}
			s.n++
			continue
		}
		if prev != nil && icmp.Compare(prev, k) >= 0 && s.err == "" {
			s.err = fmt.Sprintf("entries #%d and #%d are not strictly increasing", s.n-1, s.n)
		}
		prev = append(prev[:0], k...)
		if s.n == 0 {
			s.first = append([]byte{}, k...)
		}
		s.last = append(s.last[:0], k...)
		sr, ok := s.keys[string(uk)]
		if !ok {
			sr = seqRange{seq, seq}
		} else {
			if seq < sr.min {
				sr.min = seq
			}
			if seq > sr.max {
				sr.max = seq
			}
		}
		s.keys[string(uk)] = sr
		s.n++
	}
	if err := it.Error(); err != nil {
		return nil, fmt.Errorf("table %d: iterate: %v", num, err)
	}
	return s, nil
}

func (e *Env) tableSummary(num int64) (*tableSummary, error) {
	fd := storage.FileDesc{Type: storage.TypeTable, Num: num}
	_, _, gen, ok := e.FS.FileInfo(fd)
	if ok {
		if s, hit := e.tcache[num]; hit && s.gen == gen {
			return s, nil
		}
	}
	s, err := ReadTable(e.FS, num, e.Cmp, e.O)
	if err != nil {
		return nil, err
	}
	e.tcache[num] = s
	return s, nil
}

func ukeyOf(ik []byte) []byte { return ik[:len(ik)-8] }

// CheckTables checks the well-formedness (C06) of a table set.
func (e *Env) CheckTables(what string, tables []leveldb.VerifTable) (classes []string, err error) {
	byLevel := map[int][]leveldb.VerifTable{}
	maxLevel := 0
	for _, t := range tables {
		byLevel[t.Level] = append(byLevel[t.Level], t)
		if t.Level > maxLevel {
			maxLevel = t.Level
		}
	}
	levelKeys := make([]map[string]seqRange, maxLevel+1)
	nonEmpty, multiFileDeep := 0, false
	for lvl := 0; lvl <= maxLevel; lvl++ {
		ts := byLevel[lvl]
		if len(ts) == 0 {
			continue
		}
		nonEmpty++
		if lvl >= 1 && len(ts) >= 2 {
			multiFileDeep = true
		}
		lk := map[string]seqRange{}
		for i, t := range ts {
			s, rerr := e.tableSummary(t.Num)
			if rerr != nil {
				return nil, e.fail("%s: level %d: %v", what, lvl, rerr)
			}
			if int64(s.size) != t.Size {
				return nil, e.fail("%s: table %d recorded size %d, file has %d bytes", what, t.Num, t.Size, s.size)
			}
			if s.err != "" {
				return nil, e.fail("%s: table %d (level %d): %s", what, t.Num, lvl, s.err)
			}
			if s.n == 0 {
				return nil, e.fail("%s: table %d (level %d) is empty", what, t.Num, lvl)
			}
			if !bytes.Equal(s.first, t.IMin) {
				return nil, e.fail("%s: table %d recorded smallest key %q but first entry is %q", what, t.Num, t.IMin, s.first)
			}
			if !bytes.Equal(s.last, t.IMax) {
				return nil, e.fail("%s: table %d recorded largest key %q but last entry is %q", what, t.Num, t.IMax, s.last)
			}
			if lvl >= 1 && i > 0 {
				p := ts[i-1]
				if e.Cmp.Compare(ukeyOf(p.IMax), ukeyOf(t.IMin)) >= 0 {
					return nil, e.fail("%s: level %d: table %d [..%q] and table %d [%q..] are out of order or share a user key",
						what, lvl, p.Num, ukeyOf(p.IMax), t.Num, ukeyOf(t.IMin))
				}
			}
			for k, sr := range s.keys {
				if o, ok := lk[k]; ok {
					if sr.min < o.min {
						o.min = sr.min
					}
					if sr.max > o.max {
						o.max = sr.max
					}
					lk[k] = o
				} else {
					lk[k] = sr
				}
			}
		}
		levelKeys[lvl] = lk
	}
	// Newer-above-older: for every user key, every entry in a shallower level
	// is newer than every entry in a deeper level.
	for i := 0; i <= maxLevel; i++ {
		for j := i + 1; j <= maxLevel; j++ {
			if levelKeys[i] == nil || levelKeys[j] == nil {
				continue
			}
			a, b := levelKeys[i], levelKeys[j]
			if len(b) < len(a) {
				for k, sb := range b {
					if sa, ok := a[k]; ok && sa.min <= sb.max {
						return nil, e.fail("%s: user key %q: level %d holds seq %d, deeper level %d holds newer-or-equal seq %d", what, k, i, sa.min, j, sb.max)
					}
				}
			} else {
				for k, sa := range a {
					if sb, ok := b[k]; ok && sa.min <= sb.max {
						return nil, e.fail("%s: user key %q: level %d holds seq %d, deeper level %d holds newer-or-equal seq %d", what, k, i, sa.min, j, sb.max)
					}
				}
			}
		}
	}
	if nonEmpty >= 2 && multiFileDeep {
		classes = append(classes, "nontrivial")
	}
	if nonEmpty >= 3 {
		classes = append(classes, "levels>=3")
	}
	return classes, nil
}

func (e *Env) checkVersion(p *leveldb.VerifVersion) error {
	e.St.Versions++
	cl, err := e.CheckTables(fmt.Sprintf("version %d", p.ID), p.Tables)
	if err != nil {
		return err
	}
	for _, c := range cl {
		if c == "nontrivial" {
			e.St.VersionsNontrivial++
		}
		e.St.TreeClasses[c]++
	}
	return nil
}

// checkFiles checks, at an idle point with no iterator alive and no open
// transaction, that storage holds nothing but the live tables, one journal,
// the live manifest and its pointer (C07, "everything unneeded is deleted").
func (e *Env) checkFiles() error {
	if len(e.iters) > 0 || e.Tr != nil {
		return nil
	}
	return e.CheckFileSet("idle")
}

// CheckFileSet compares the storage listing with the live set.
func (e *Env) CheckFileSet(what string) error {
	live := map[int64]bool{}
	for _, t := range e.DB.VerifTables() {
		live[t.Num] = true
	}
	var journals, manifests []int64
	for _, fd := range e.FS.Files() {
		switch fd.Type {
		case storage.TypeTable:
			if !live[fd.Num] {
				return e.fail("%s: table file %d is in storage but not part of the live table set (leaked)", what, fd.Num)
			}
			delete(live, fd.Num)
		case storage.TypeJournal:
			journals = append(journals, fd.Num)
		case storage.TypeManifest:
			manifests = append(manifests, fd.Num)
		case storage.TypeTemp:
			return e.fail("%s: temporary file %d left in storage", what, fd.Num)
		}
	}
	for n := range live {
		return e.fail("%s: live table %d is missing from storage", what, n)
	}
	sort.Slice(journals, func(i, j int) bool { return journals[i] < journals[j] })
	if len(journals) != 1 {
		return e.fail("%s: expected exactly one journal file at rest, storage has %v", what, journals)
	}
	meta := e.FS.Meta()
	if len(manifests) != 1 || manifests[0] != meta.Num {
		return e.fail("%s: expected exactly the current manifest %d, storage has manifests %v", what, meta.Num, manifests)
	}
	e.St.FileChecks++
	return nil
}

// DumpTable lists the entries of a table file (debugging aid).
func (e *Env) DumpTable(num int64) []string {
	fd := storage.FileDesc{Type: storage.TypeTable, Num: num}
	n, _, _, ok := e.FS.FileInfo(fd)
	if !ok {
		return []string{"missing"}
	}
	r, err := e.FS.Open(fd)
	if err != nil {
		return []string{err.Error()}
	}
	defer r.Close()
	icmp := leveldb.VerifInternalComparer(e.Cmp)
	ro := &opt.Options{Comparer: icmp, Strict: opt.StrictAll, BlockSize: e.O.GetBlockSize(), Filter: e.O.GetFilter(), AltFilters: e.O.AltFilters}
	tr, err := table.NewReader(r, int64(n), fd, nil, nil, ro)
	if err != nil {
		return []string{err.Error()}
	}
	defer tr.Release()
	it := tr.NewIterator(nil, nil)
	defer it.Release()
	var out []string
	for it.Next() {
		uk, seq, kind, perr := leveldb.VerifParseInternalKey(it.Key())
		if perr != nil {
			out = append(out, fmt.Sprintf("unparsable %x", it.Key()))
			continue
		}
		uks := fmt.Sprintf("%q", uk)
		if len(uks) > 40 {
			uks = uks[:40] + "…"
		}
		out = append(out, fmt.Sprintf("%s seq=%d kind=%v vlen=%d", uks, seq, kind, len(it.Value())))
	}
	if err := it.Error(); err != nil {
		out = append(out, "iterate: "+err.Error())
	}
	return out
}
