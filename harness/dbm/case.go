// Package dbm is the DB state machine shared by the sequential checks: a
// serialisable case (options, comparer, key pool, operation list), an executor
// that drives leveldb.DB over the checker's storage next to the reference
// model, and the oracles that compare them.
package dbm

import (
	"encoding/json"
	"os"

	"verif/gen"
)

// Move is one iterator movement.
type Move struct {
	M string `json:"m"` // first|last|seek|next|prev
	K int    `json:"k,omitempty"`
}

// BOp is one operation of a batch.
type BOp struct {
	Del bool      `json:"del,omitempty"`
	K   int       `json:"k"`
	V   gen.VSpec `json:"v,omitempty"`
}

// Op is one step of a case.
//
//	put del batch get has compact reopen idle
//	snap snapget snapscan snaprel
//	iter iterwalk iterrel scan
//	tropen trget trcommit trdiscard churn
type Op struct {
	T       string    `json:"t"`
	K       int       `json:"k,omitempty"`
	V       gen.VSpec `json:"v,omitempty"`
	B       []BOp     `json:"b,omitempty"`
	Sync    bool      `json:"sync,omitempty"`
	NoMerge bool      `json:"nomerge,omitempty"`
	S       *int      `json:"s,omitempty"` // range start (key index), nil = unbounded
	L       *int      `json:"l,omitempty"` // range limit
	Slot    int       `json:"slot,omitempty"`
	Src     string    `json:"src,omitempty"` // db|snap|tr
	Walk    []Move    `json:"walk,omitempty"`
}

// Case is a complete, replayable test case.
type Case struct {
	Prop       string      `json:"prop"`
	Opts       gen.OptSpec `json:"opts"`
	Cmp        string      `json:"cmp"`
	Keys       []gen.Hex   `json:"keys"`
	Ops        []Op        `json:"ops"`
	Det        bool        `json:"det,omitempty"`        // wait for background work after every mutating step
	Tree       bool        `json:"tree,omitempty"`       // check C06 invariants on every installed version
	Files      bool        `json:"files,omitempty"`      // check C07 file-set invariants at idle points
	Poison     bool        `json:"poison,omitempty"`     // scribble over argument and result buffers (C20)
	SlowFlush  bool        `json:"slowflush,omitempty"`  // table creation is delayed a little so that reads meet the frozen buffer
	SlowRemove bool        `json:"slowremove,omitempty"` // table removal is delayed a little so that it overlaps what follows a release
	// FilterCycle, when set, overrides the filter policy: the i-th Open uses
	// FilterCycle[i mod len] as Options.Filter, with the bloom and hash-set
	// policies as AltFilters so that tables written under another policy stay
	// readable (C16).
	FilterCycle []string `json:"filtercycle,omitempty"`
	Note        string   `json:"note,omitempty"`
}

// Save writes the case as JSON.
func (c *Case) Save(path string) error {
	b, err := json.MarshalIndent(c, "", " ")
	if err != nil {
		return err
	}
	return os.WriteFile(path, b, 0o644)
}

// Load reads a case.
func Load(path string) (*Case, error) {
	b, err := os.ReadFile(path)
	if err != nil {
		return nil, err
	}
	c := &Case{}
	if err := json.Unmarshal(b, c); err != nil {
		return nil, err
	}
	return c, nil
}
