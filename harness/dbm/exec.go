package dbm

import (
	"bytes"
	"errors"
	"fmt"
	"runtime"
	"runtime/debug"
	"sort"
	"strings"
	"sync"
	"sync/atomic"
	"time"

	"github.com/syndtr/goleveldb/leveldb"
	"github.com/syndtr/goleveldb/leveldb/comparer"
	"github.com/syndtr/goleveldb/leveldb/filter"
	"github.com/syndtr/goleveldb/leveldb/iterator"
	"github.com/syndtr/goleveldb/leveldb/opt"
	"github.com/syndtr/goleveldb/leveldb/storage"
	"github.com/syndtr/goleveldb/leveldb/util"

	"verif/gen"
	"verif/model"
	"verif/vfs"
)

// Stats describes what a case reached.
type Stats struct {
	MemComp, L0Comp, NonL0Comp, SeekComp int
	Reopens, Compacts, Snaps, Iters      int
	Recovers, SizeOfs                    int
	Moves, Reversals, Seeks              int
	MaxLevels, DeepestLevel              int
	LargeBatch, TrCommits, TrDiscards    int
	TrFlushWrites                        int
	ReadsAfterComp                       int // read checks done after >=1 flush and >=1 table compaction
	DelBeforeCompact                     bool
	ManifestCreates                      int
	Versions, VersionsNontrivial         int
	TreeClasses                          map[string]int
	SnapReadsAfterComp                   int // reads through a handle after a compaction that followed an overwrite/delete visible to it
	IterPinnedRemovals                   int // table removals while an iterator was alive
	MaxVersionsBehindIter                int
	IterSources2, IterHidden             int
	FileChecks                           int
	Scribbles, ScribbledTableGets        int
	Ops                                  int
}

type snapH struct {
	s     *leveldb.Snapshot
	m     *model.Map
	dirty bool // some key visible through it was overwritten/deleted since
	comp  bool // ... and a compaction ran after that
}

type iterH struct {
	it           iterator.Iterator
	cur          *model.Cursor
	lastK, lastV []byte
	had          bool
	dirty, comp  bool
	opsAtOpen    int
	removedAt    int
	versAtOpen   int
	seekBuf      []byte // one buffer reused for every Seek key of this iterator (callers may refill their buffer at once)
}

// Env is the executor state.
type Env struct {
	C    *Case
	FS   *vfs.FS
	O    *opt.Options
	Cmp  comparer.Comparer
	DB   *leveldb.DB
	M    *model.Map // what DB readers must see
	TrM  *model.Map // what the open transaction must see
	Tr   *leveldb.Transaction
	St   Stats
	base struct{ mem, l0, nl0, seek int }

	KeepTr bool // ReleaseHandles leaves an open transaction alone (Close will discard it)

	batch *leveldb.Batch // one Batch object reused (Reset) by a quarter of the batch writes

	snaps    []*snapH
	iters    []*iterH
	pinMu    sync.Mutex
	pinned   []*leveldb.VerifVersion
	tcache   map[int64]*tableSummary
	opIdx    int
	reads    int
	opens    int
	delSeen  bool
	removals int
	versions int
}

// Violation is an oracle failure.
type Violation struct {
	Op  int
	Msg string
}

func (v *Violation) Error() string { return fmt.Sprintf("op #%d: %s", v.Op, v.Msg) }

func (e *Env) fail(format string, a ...any) error {
	return &Violation{Op: e.opIdx, Msg: fmt.Sprintf(format, a...)}
}

// NewEnv prepares an executor on a fresh storage.
func NewEnv(c *Case) *Env {
	e := &Env{C: c, FS: vfs.New(), M: model.NewMap(), tcache: map[int64]*tableSummary{}}
	e.O = c.Opts.Build(c.Cmp)
	e.Cmp = e.O.Comparer
	e.installHooks()
	e.St.TreeClasses = map[string]int{}
	return e
}

func (e *Env) installHooks() {
	c := e.C
	if !c.SlowFlush && !c.SlowRemove {
		return
	}
	e.FS.Hook = func(kind string, fd storage.FileDesc) {
		if fd.Type != storage.TypeTable {
			return
		}
		// SlowFlush keeps the frozen buffer around for a while: reads then hit it.
		// SlowRemove stretches the removal of obsolete tables, so that whatever
		// follows the release of a version (Close in particular) overlaps it.
		if kind == vfs.OpCreate && c.SlowFlush {
			time.Sleep(150 * time.Microsecond)
		}
		if kind == vfs.OpRemove && c.SlowRemove {
			time.Sleep(300 * time.Microsecond)
		}
	}
}

func (e *Env) key(i int) []byte {
	n := len(e.C.Keys)
	if n == 0 {
		return []byte("k")
	}
	i %= n
	if i < 0 {
		i += n
	}
	return append([]byte{}, e.C.Keys[i]...)
}

func (e *Env) rng(s, l *int) (*util.Range, []byte, []byte) {
	if s == nil && l == nil {
		return nil, nil, nil
	}
	var a, b []byte
	if s != nil {
		a = e.key(*s)
	}
	if l != nil {
		b = e.key(*l)
	}
	if a != nil && b != nil && e.Cmp.Compare(a, b) > 0 {
		a, b = b, a
	}
	return &util.Range{Start: a, Limit: b}, a, b
}

// Open opens the DB.
func (e *Env) Open() error {
	leveldb.VerifSetVersionObserver(func(p *leveldb.VerifVersion) bool {
		// called from whichever goroutine installs the version
		e.pinMu.Lock()
		defer e.pinMu.Unlock()
		e.versions++
		if e.C.Tree {
			e.pinned = append(e.pinned, p)
			return true
		}
		return false
	})
	if n := len(e.C.FilterCycle); n > 0 {
		o := *e.O
		o.Filter = gen.FilterByName(e.C.FilterCycle[e.opens%n])
		o.AltFilters = []filter.Filter{gen.FilterByName("bloom10"), gen.HashSetFilter{}}
		e.O = &o
	}
	e.opens++
	db, err := leveldb.Open(e.FS, e.O)
	if err != nil {
		return e.fail("Open failed: %v", err)
	}
	e.DB = db
	return e.drainPinned()
}

func (e *Env) pollStats() {
	if e.DB == nil {
		return
	}
	var s leveldb.DBStats
	if e.DB.Stats(&s) != nil {
		return
	}
	e.St.MemComp = e.base.mem + int(s.MemComp)
	e.St.L0Comp = e.base.l0 + int(s.Level0Comp)
	e.St.NonL0Comp = e.base.nl0 + int(s.NonLevel0Comp)
	e.St.SeekComp = e.base.seek + int(s.SeekComp)
	nl, deep := 0, 0
	for i, n := range s.LevelTablesCounts {
		if n > 0 {
			nl++
			deep = i
		}
	}
	if nl > e.St.MaxLevels {
		e.St.MaxLevels = nl
	}
	if deep > e.St.DeepestLevel {
		e.St.DeepestLevel = deep
	}
}

func (e *Env) compacted() bool {
	return e.St.MemComp > 0 && e.St.L0Comp+e.St.NonL0Comp+e.St.SeekComp > 0
}

// Close releases handles and closes the DB.
func (e *Env) Close() error {
	if e.DB == nil {
		return nil
	}
	for _, h := range e.iters {
		h.it.Release()
	}
	e.iters = nil
	e.pollStats()
	e.base.mem, e.base.l0, e.base.nl0, e.base.seek = e.St.MemComp, e.St.L0Comp, e.St.NonL0Comp, e.St.SeekComp
	if err := e.drainPinned(); err != nil {
		return err
	}
	err := e.DB.Close()
	e.DB = nil
	e.snaps = nil
	if e.Tr != nil {
		e.Tr, e.TrM = nil, nil
		e.St.TrDiscards++
	}
	for _, p := range e.takePinned() {
		p.Release()
	}
	leveldb.VerifSetVersionObserver(nil)
	if err != nil {
		return e.fail("Close failed: %v", err)
	}
	return nil
}

// Abort closes everything without checks (used after a failure).
func (e *Env) Abort() {
	for _, h := range e.iters {
		h.it.Release()
	}
	e.iters = nil
	for _, p := range e.takePinned() {
		p.Release()
	}
	if e.DB != nil {
		// the DB may be wedged (that can be the very violation being reported): do not wait forever
		db := e.DB
		e.DB = nil
		done := make(chan struct{})
		go func() { db.Close(); close(done) }()
		select {
		case <-done:
		case <-time.After(5 * time.Second):
		}
	}
	leveldb.VerifSetVersionObserver(nil)
}

func (e *Env) takePinned() []*leveldb.VerifVersion {
	e.pinMu.Lock()
	defer e.pinMu.Unlock()
	r := e.pinned
	e.pinned = nil
	return r
}

func (e *Env) nVersions() int {
	e.pinMu.Lock()
	defer e.pinMu.Unlock()
	return e.versions
}

func (e *Env) drainPinned() error {
	var first error
	for _, p := range e.takePinned() {
		if e.C.Tree && first == nil {
			if err := e.checkVersion(p); err != nil {
				first = err
			}
		}
		p.Release()
	}
	return first
}

// guarded returns b as the caller of the DB would typically hold it: a slice of a
// larger buffer whose spare capacity contains other data of the caller. intact
// reports whether the argument and the bytes behind it are still what they were.
func guarded(b []byte) (arg []byte, intact func() bool) {
	const tail = 24
	buf := make([]byte, len(b)+tail)
	copy(buf, b)
	for i := len(b); i < len(buf); i++ {
		buf[i] = 0xC3 ^ byte(i)
	}
	ref := append([]byte{}, buf...)
	return buf[:len(b)], func() bool { return bytes.Equal(buf, ref) }
}

type batchReplay struct {
	recs []struct {
		k, v []byte
		del  bool
	}
}

func (r *batchReplay) Put(k, v []byte) {
	r.recs = append(r.recs, struct {
		k, v []byte
		del  bool
	}{append([]byte{}, k...), append([]byte{}, v...), false})
}

func (r *batchReplay) Delete(k []byte) {
	r.recs = append(r.recs, struct {
		k, v []byte
		del  bool
	}{append([]byte{}, k...), nil, true})
}

func scribble(b []byte) {
	for i := range b {
		b[i] = 0xAA
	}
}

// view returns the model the given source must see.
func (e *Env) view(src string) *model.Map {
	if src == "tr" && e.Tr != nil {
		return e.TrM
	}
	return e.M
}

func (e *Env) markDirty(k []byte) {
	for _, s := range e.snaps {
		if _, ok := s.m.Get(k); ok {
			s.dirty = true
		}
	}
	for _, h := range e.iters {
		h.dirty = true
	}
}

func (e *Env) noteCompaction(before Stats) {
	if e.St.L0Comp+e.St.NonL0Comp+e.St.SeekComp > before.L0Comp+before.NonL0Comp+before.SeekComp {
		for _, s := range e.snaps {
			if s.dirty {
				s.comp = true
			}
		}
		for _, h := range e.iters {
			if h.dirty {
				h.comp = true
			}
		}
	}
}

func (e *Env) checkGet(k []byte) error {
	want, ok := e.M.Get(k)
	e.reads++
	var ro *opt.ReadOptions
	if e.reads%3 == 0 {
		ro = &opt.ReadOptions{DontFillCache: true} // a hit in the block cache is still served from the shared block
	}
	ka, kIntact := guarded(k)
	got, err := e.DB.Get(ka, ro)
	if !kIntact() {
		return e.fail("Get(%q) modified its key argument or the caller's bytes behind it", k)
	}
	if ok {
		if err != nil {
			return e.fail("Get(%q): error %v, model has %s", k, err, short(want))
		}
		if !bytes.Equal(got, want) {
			return e.fail("Get(%q) = %s, model has %s", k, short(got), short(want))
		}
	} else if err != leveldb.ErrNotFound {
		return e.fail("Get(%q) = %s, %v; model says not found", k, short(got), err)
	}
	if e.C.Poison && err == nil {
		scribble(got)
		e.St.Scribbles++
		if e.compacted() {
			e.St.ScribbledTableGets++
		}
	}
	has, herr := e.DB.Has(ka, nil)
	if !kIntact() {
		return e.fail("Has(%q) modified its key argument or the caller's bytes behind it", k)
	}
	if herr != nil {
		return e.fail("Has(%q): error %v", k, herr)
	}
	if has != ok {
		return e.fail("Has(%q) = %v, model says %v (Get said err=%v)", k, has, ok, err)
	}
	if e.compacted() {
		e.St.ReadsAfterComp++
	}
	return nil
}

func short(b []byte) string {
	if len(b) > 48 {
		return fmt.Sprintf("%q…(%d bytes)", b[:48], len(b))
	}
	return fmt.Sprintf("%q", b)
}

// FullScan reads the whole DB through an iterator.
func FullScan(it iterator.Iterator) ([]model.KV, error) {
	var r []model.KV
	for it.Next() {
		r = append(r, model.KV{K: append([]byte{}, it.Key()...), V: append([]byte{}, it.Value()...)})
	}
	return r, it.Error()
}

func (e *Env) cmpList(what string, got, want []model.KV) error {
	for i := 0; i < len(got) || i < len(want); i++ {
		if i >= len(got) {
			return e.fail("%s: ended after %d pairs, model has %d (next expected key %q)", what, len(got), len(want), want[i].K)
		}
		if i >= len(want) {
			return e.fail("%s: extra pair #%d key %q", what, i, got[i].K)
		}
		if !bytes.Equal(got[i].K, want[i].K) {
			return e.fail("%s: pair #%d key %q, model has %q", what, i, got[i].K, want[i].K)
		}
		if !bytes.Equal(got[i].V, want[i].V) {
			return e.fail("%s: pair #%d key %q value %s, model has %s", what, i, got[i].K, short(got[i].V), short(want[i].V))
		}
	}
	return nil
}

// Sweep compares every pool key and a full scan with the model.
func (e *Env) Sweep() error {
	for i := range e.C.Keys {
		if err := e.checkGet(e.key(i)); err != nil {
			return err
		}
	}
	it := e.DB.NewIterator(nil, nil)
	got, err := FullScan(it)
	it.Release()
	if err != nil {
		return e.fail("full scan: iterator error %v", err)
	}
	return e.cmpList("full scan", got, e.M.Sorted(e.Cmp.Compare, nil, nil))
}

func (e *Env) tag(j int) string { return fmt.Sprintf("%d.%d", e.opIdx, j) }

func (e *Env) wo(op *Op) *opt.WriteOptions {
	if !op.Sync && !op.NoMerge {
		return nil
	}
	return &opt.WriteOptions{Sync: op.Sync, NoWriteMerge: op.NoMerge}
}

func (e *Env) afterWrite(keys [][]byte) error {
	if e.C.Det {
		if err := e.idle(false); err != nil {
			return err
		}
	}
	before := e.St
	e.pollStats()
	e.noteCompaction(before)
	if e.Tr != nil {
		return nil
	}
	for i, k := range keys {
		if i >= 3 {
			break
		}
		if err := e.checkGet(k); err != nil {
			return err
		}
	}
	return nil
}

func (e *Env) idle(files bool) error {
	if err := e.drainPinned(); err != nil {
		return err
	}
	if err := e.DB.VerifWaitIdle(); err != nil {
		return e.fail("VerifWaitIdle: %v", err)
	}
	if err := e.drainPinned(); err != nil {
		return err
	}
	if files && e.C.Files {
		return e.checkFiles()
	}
	return nil
}

// Step executes one operation.
func (e *Env) Step(i int, op *Op) error {
	e.opIdx = i
	e.St.Ops++
	var err error
	switch op.T {
	case "put", "del":
		k := e.key(op.K)
		var v []byte
		if op.T == "put" {
			v = op.V.Bytes(e.tag(0))
		}
		ka, kIntact := guarded(k)
		va, vIntact := guarded(v)
		tgt := e.M
		if e.Tr != nil {
			tgt = e.TrM
			if op.T == "put" {
				err = e.Tr.Put(ka, va, e.wo(op))
			} else {
				err = e.Tr.Delete(ka, e.wo(op))
			}
		} else {
			if op.T == "put" {
				err = e.DB.Put(ka, va, e.wo(op))
			} else {
				err = e.DB.Delete(ka, e.wo(op))
			}
		}
		if err != nil {
			return e.fail("%s(%q): unexpected error %v", op.T, k, err)
		}
		if !kIntact() || !vIntact() {
			return e.fail("%s(%q): the call modified its argument buffers or the caller's bytes behind them", op.T, k)
		}
		if e.C.Poison {
			scribble(ka)
			scribble(va)
			e.St.Scribbles++
		}
		if op.T == "put" {
			tgt.Put(k, v)
		} else {
			tgt.Delete(k)
			e.delSeen = true
		}
		if e.Tr == nil {
			e.markDirty(k)
		}
		return e.afterWrite([][]byte{k})

	case "batch":
		// the Batch object comes in four flavours (picked by position, no extra draw): fresh,
		// one object reused with Reset for the whole case, pre-sized with MakeBatch, and a
		// second object loaded from the first one's Dump
		variant := (i + len(op.B)) % 4
		b := new(leveldb.Batch)
		switch variant {
		case 1:
			if e.batch == nil {
				e.batch = new(leveldb.Batch)
			}
			b = e.batch
			b.Reset()
		case 2:
			b = leveldb.MakeBatch(16 * len(op.B))
		}
		var keys [][]byte
		ilen := 0
		type rec struct {
			k, v []byte
			del  bool
		}
		var recs []rec
		var scratch [][]byte
		for j, bo := range op.B {
			k := e.key(bo.K)
			ka := append([]byte{}, k...)
			if bo.Del {
				b.Delete(ka)
				recs = append(recs, rec{k: k, del: true})
				ilen += len(k) + 8
			} else {
				v := bo.V.Bytes(e.tag(j))
				va := append([]byte{}, v...)
				b.Put(ka, va)
				scratch = append(scratch, va)
				recs = append(recs, rec{k: k, v: v})
				ilen += len(k) + len(v) + 8
			}
			scratch = append(scratch, ka)
			keys = append(keys, k)
		}
		if e.C.Poison {
			// Batch.Put/Delete must have copied their arguments.
			for _, s := range scratch {
				scribble(s)
			}
			e.St.Scribbles++
		}
		if b.Len() != len(op.B) {
			return e.fail("Batch.Len() = %d after %d Put/Delete calls", b.Len(), len(op.B))
		}
		// Replay hands back exactly the recorded operations, in order
		rp := &batchReplay{}
		if rerr := b.Replay(rp); rerr != nil {
			return e.fail("Batch.Replay: %v", rerr)
		}
		if len(rp.recs) != len(recs) {
			return e.fail("Batch.Replay yields %d operations, %d were recorded", len(rp.recs), len(recs))
		}
		for j := range recs {
			if rp.recs[j].del != recs[j].del || !bytes.Equal(rp.recs[j].k, recs[j].k) || !bytes.Equal(rp.recs[j].v, recs[j].v) {
				return e.fail("Batch.Replay operation #%d differs from what was recorded", j)
			}
		}
		if variant == 3 {
			b2 := new(leveldb.Batch)
			if lerr := b2.Load(append([]byte{}, b.Dump()...)); lerr != nil {
				return e.fail("Batch.Load(Dump()): %v", lerr)
			}
			if b2.Len() != b.Len() || !bytes.Equal(b2.Dump(), b.Dump()) {
				return e.fail("Batch.Load(Dump()) is not the same batch (%d vs %d operations)", b2.Len(), b.Len())
			}
			b = b2
		}
		dump := append([]byte{}, b.Dump()...)
		tgt := e.M
		if e.Tr != nil {
			tgt = e.TrM
			err = e.Tr.Write(b, e.wo(op))
		} else {
			if ilen > e.O.GetWriteBuffer() && !e.O.GetDisableLargeBatchTransaction() {
				e.St.LargeBatch++
			}
			err = e.DB.Write(b, e.wo(op))
		}
		if err != nil {
			return e.fail("batch write (%d ops, %d bytes): unexpected error %v", len(op.B), ilen, err)
		}
		if !bytes.Equal(dump, b.Dump()) {
			return e.fail("batch write modified the batch contents")
		}
		if e.C.Poison {
			scribble(b.Dump())
			b.Reset()
		}
		for _, r := range recs {
			if r.del {
				tgt.Delete(r.k)
				e.delSeen = true
			} else {
				tgt.Put(r.k, r.v)
			}
			if e.Tr == nil {
				e.markDirty(r.k)
			}
		}
		return e.afterWrite(keys)

	case "churn":
		// many version changes in a row: buffer-sized puts, each forcing a flush (and the
		// compactions it triggers); used to put hundreds of versions behind a pinned iterator
		if e.Tr != nil {
			return nil
		}
		n := op.Slot
		if n <= 0 {
			n = 40
		}
		wb := e.O.GetWriteBuffer()
		if wb > 2048 {
			wb = 2048
		}
		// op.S = number of adjacent keys cycled through (default 3), op.V.Len = puts per
		// buffer (default 1): with 2 or 3 puts per buffer the flushed tables cover short
		// runs of adjacent keys, which chain into transitive overlaps in level 0
		stride, parts := 3, 1
		if op.S != nil && *op.S > 0 {
			stride = *op.S
		}
		if op.V.Len > 1 {
			parts = op.V.Len
		}
		for j := 0; j < n; j++ {
			k := e.key(op.K + j%stride)
			vl := wb / parts
			if parts > 1 {
				// leave room for the key, the tag and the per-record overhead so that
				// `parts` puts really share one buffer
				if vl -= len(k) + 48; vl < 0 {
					vl = 0
				}
			}
			v := gen.VSpec{Len: vl, Fill: j % 2}.Bytes(e.tag(j))
			if err := e.DB.Put(append([]byte{}, k...), v, nil); err != nil {
				return e.fail("churn put #%d: unexpected error %v", j, err)
			}
			e.M.Put(k, v)
			e.markDirty(k)
			if j%8 == 7 {
				if err := e.DB.VerifWaitIdle(); err != nil {
					return e.fail("VerifWaitIdle: %v", err)
				}
				if err := e.drainPinned(); err != nil {
					return err
				}
			}
		}
		before := e.St
		if err := e.idle(false); err != nil {
			return err
		}
		e.pollStats()
		e.noteCompaction(before)
		return e.checkGet(e.key(op.K))

	case "get", "has":
		if e.Tr != nil && op.Src == "tr" {
			return e.trGet(e.key(op.K))
		}
		return e.checkGet(e.key(op.K))

	case "compact":
		if e.Tr != nil {
			return nil // would block on the write lock held by the transaction
		}
		r, _, _ := e.rng(op.S, op.L)
		var ur util.Range
		if r != nil {
			ur = *r
		}
		before := e.St
		if err := e.DB.CompactRange(ur); err != nil {
			return e.fail("CompactRange(%q,%q): unexpected error %v", ur.Start, ur.Limit, err)
		}
		e.St.Compacts++
		if e.delSeen {
			e.St.DelBeforeCompact = true
		}
		e.pollStats()
		e.noteCompaction(before)
		if err := e.drainPinned(); err != nil {
			return err
		}
		if err := e.Sweep(); err != nil {
			return err
		}
		return e.checkHandles()

	case "reopen":
		if err := e.Close(); err != nil {
			return err
		}
		if err := e.Open(); err != nil {
			return err
		}
		e.St.Reopens++
		return e.Sweep()

	case "sizeof":
		// approximate sizes of three nested ranges over one version: offsets grow with the
		// key, so the sizes are non-negative, additive and bounded by the table bytes on disk
		ks := [][]byte{e.key(op.K), e.key(op.K + 1), e.key(op.K + 2)}
		if op.S != nil {
			ks[1] = e.key(*op.S)
		}
		if op.L != nil {
			ks[2] = e.key(*op.L)
		}
		sort.Slice(ks, func(i, j int) bool { return e.Cmp.Compare(ks[i], ks[j]) < 0 })
		settled := false
		if e.C.Det && e.Tr == nil {
			// wait for whatever the previous step left running (a reopen starts compactions):
			// only then is "table bytes in storage" the size of the version SizeOf looks at
			if err := e.idle(false); err != nil {
				return err
			}
			settled = true
		}
		a, aIntact := guarded(ks[0])
		b, bIntact := guarded(ks[1])
		c, cIntact := guarded(ks[2])
		sz, err := e.DB.SizeOf([]util.Range{{Start: a, Limit: b}, {Start: a, Limit: c}, {Start: b, Limit: c}})
		if err != nil {
			return e.fail("SizeOf: unexpected error %v", err)
		}
		if !aIntact() || !bIntact() || !cIntact() {
			return e.fail("SizeOf modified its range arguments or the caller's bytes behind them")
		}
		if len(sz) != 3 || sz[0] < 0 || sz[2] < 0 || sz[0]+sz[2] != sz[1] {
			return e.fail("SizeOf([%q,%q) [%q,%q) [%q,%q)) = %v: negative or not additive", ks[0], ks[1], ks[0], ks[2], ks[1], ks[2], sz)
		}
		// the bound by the table bytes in storage only holds when nothing runs in the background
		// (otherwise the version SizeOf looked at may hold tables that are gone by now)
		if total := int64(e.FS.TotalBytes(storage.TypeTable)); settled && sz[1] > total {
			return e.fail("SizeOf([%q,%q)) = %d with only %d table bytes in storage (settled state)", ks[0], ks[2], sz[1], total)
		}
		e.St.SizeOfs++
		return nil

	case "recover":
		// settled shutdown, then rebuild the DB from its table and journal files
		if e.Tr != nil {
			return nil
		}
		if err := e.idle(true); err != nil {
			return err
		}
		if err := e.Close(); err != nil {
			return err
		}
		if err := e.OpenWith("Recover", func() (*leveldb.DB, error) { return leveldb.Recover(e.FS, e.O) }); err != nil {
			return err
		}
		e.St.Recovers++
		return e.Sweep()

	case "idle":
		before := e.St
		if err := e.idle(true); err != nil {
			return err
		}
		e.pollStats()
		e.noteCompaction(before)
		return nil

	case "snap":
		if len(e.snaps) >= 6 {
			return nil
		}
		s, err := e.DB.GetSnapshot()
		if err != nil {
			return e.fail("GetSnapshot: %v", err)
		}
		e.snaps = append(e.snaps, &snapH{s: s, m: e.M.Clone()})
		e.St.Snaps++
		return nil

	case "snapget":
		if len(e.snaps) == 0 {
			return nil
		}
		return e.snapGet(e.snaps[op.Slot%len(e.snaps)], e.key(op.K))

	case "snaprel":
		if len(e.snaps) == 0 {
			return nil
		}
		j := op.Slot % len(e.snaps)
		h := e.snaps[j]
		// full scan through the handle before releasing it
		if err := e.scanHandle(h); err != nil {
			return err
		}
		h.s.Release()
		e.snaps = append(e.snaps[:j], e.snaps[j+1:]...)
		if err := e.checkHandles(); err != nil {
			return err
		}
		return e.checkGet(e.key(op.K))

	case "iter":
		if len(e.iters) >= 4 {
			return nil
		}
		_, err := e.newIter(op)
		return err

	case "iterwalk":
		if len(e.iters) == 0 {
			return nil
		}
		return e.walk(e.iters[op.Slot%len(e.iters)], op.Walk)

	case "iterrel":
		if len(e.iters) == 0 {
			return nil
		}
		j := op.Slot % len(e.iters)
		h := e.iters[j]
		err := e.finishIter(h)
		e.iters = append(e.iters[:j], e.iters[j+1:]...)
		return err

	case "scan", "snapscan":
		h, err := e.newIter(op)
		if err != nil || h == nil {
			return err
		}
		e.iters = e.iters[:len(e.iters)-1]
		if err := e.walk(h, op.Walk); err != nil {
			h.it.Release()
			return err
		}
		return e.finishIter(h)

	case "tropen":
		if e.Tr != nil {
			return nil
		}
		tr, err := e.DB.OpenTransaction()
		if err != nil {
			return e.fail("OpenTransaction: unexpected error %v", err)
		}
		e.Tr = tr
		e.TrM = e.M.Clone()
		return nil

	case "trget":
		if e.Tr == nil {
			return nil
		}
		return e.trGet(e.key(op.K))

	case "trcommit":
		if e.Tr == nil {
			return nil
		}
		before := e.St
		if err := e.Tr.Commit(); err != nil {
			return e.fail("Transaction.Commit: unexpected error %v", err)
		}
		for k := range e.TrM.Raw() {
			e.markDirty([]byte(k))
		}
		for k := range e.M.Raw() {
			e.markDirty([]byte(k))
		}
		e.M, e.Tr, e.TrM = e.TrM, nil, nil
		e.St.TrCommits++
		e.pollStats()
		e.noteCompaction(before)
		if err := e.drainPinned(); err != nil {
			return err
		}
		return e.Sweep()

	case "trdiscard":
		if e.Tr == nil {
			return nil
		}
		e.Tr.Discard()
		e.Tr, e.TrM = nil, nil
		e.St.TrDiscards++
		return e.Sweep()
	}
	return fmt.Errorf("unknown op %q", op.T)
}

func (e *Env) trGet(k []byte) error {
	want, ok := e.TrM.Get(k)
	ka, kIntact := guarded(k)
	got, err := e.Tr.Get(ka, nil)
	if !kIntact() {
		return e.fail("Transaction.Get(%q) modified its key argument or the caller's bytes behind it", k)
	}
	if ok {
		if err != nil || !bytes.Equal(got, want) {
			return e.fail("Transaction.Get(%q) = %s, %v; transaction view has %s", k, short(got), err, short(want))
		}
	} else if err != leveldb.ErrNotFound {
		return e.fail("Transaction.Get(%q) = %s, %v; transaction view says not found", k, short(got), err)
	}
	if e.C.Poison && err == nil {
		scribble(got)
	}
	has, herr := e.Tr.Has(ka, nil)
	if !kIntact() {
		return e.fail("Transaction.Has(%q) modified its key argument or the caller's bytes behind it", k)
	}
	if herr != nil || has != ok {
		return e.fail("Transaction.Has(%q) = %v, %v; transaction view says %v", k, has, herr, ok)
	}
	// Outside the transaction nothing of it is visible.
	return e.checkGet(k)
}

func (e *Env) snapGet(h *snapH, k []byte) error {
	want, ok := h.m.Get(k)
	ka, kIntact := guarded(k)
	got, err := h.s.Get(ka, nil)
	if !kIntact() {
		return e.fail("Snapshot.Get(%q) modified its key argument or the caller's bytes behind it", k)
	}
	if ok {
		if err != nil || !bytes.Equal(got, want) {
			return e.fail("Snapshot.Get(%q) = %s, %v; contents at creation had %s", k, short(got), err, short(want))
		}
	} else if err != leveldb.ErrNotFound {
		return e.fail("Snapshot.Get(%q) = %s, %v; contents at creation had no such key", k, short(got), err)
	}
	has, herr := h.s.Has(ka, nil)
	if !kIntact() {
		return e.fail("Snapshot.Has(%q) modified its key argument or the caller's bytes behind it", k)
	}
	if herr != nil || has != ok {
		return e.fail("Snapshot.Has(%q) = %v, %v; contents at creation say %v", k, has, herr, ok)
	}
	if h.comp {
		e.St.SnapReadsAfterComp++
	}
	return nil
}

func (e *Env) scanHandle(h *snapH) error {
	it := h.s.NewIterator(nil, nil)
	got, err := FullScan(it)
	it.Release()
	if err != nil {
		return e.fail("snapshot scan: iterator error %v", err)
	}
	if h.comp {
		e.St.SnapReadsAfterComp++
	}
	return e.cmpList("snapshot scan", got, h.m.Sorted(e.Cmp.Compare, nil, nil))
}

// checkHandles re-reads a little through every live snapshot.
func (e *Env) checkHandles() error {
	for _, h := range e.snaps {
		for i := 0; i < len(e.C.Keys) && i < 6; i++ {
			if err := e.snapGet(h, e.key(i+e.opIdx)); err != nil {
				return err
			}
		}
	}
	return nil
}

func (e *Env) newIter(op *Op) (*iterH, error) {
	r, a, b := e.rng(op.S, op.L)
	var it iterator.Iterator
	var m *model.Map
	src := op.Src
	switch {
	case (src == "snap" || op.T == "snapscan") && len(e.snaps) > 0:
		h := e.snaps[op.Slot%len(e.snaps)]
		it = h.s.NewIterator(r, nil)
		m = h.m
	case src == "tr" && e.Tr != nil:
		it = e.Tr.NewIterator(r, nil)
		m = e.TrM.Clone()
	default:
		it = e.DB.NewIterator(r, nil)
		m = e.M.Clone()
	}
	h := &iterH{it: it, cur: model.NewCursor(m.Sorted(e.Cmp.Compare, a, b), e.Cmp.Compare), opsAtOpen: e.opIdx,
		removedAt: e.removalsNow(), versAtOpen: e.nVersions()}
	e.iters = append(e.iters, h)
	e.St.Iters++
	if e.compacted() && e.St.MemComp > 0 {
		e.St.IterSources2++
	}
	return h, nil
}

func (e *Env) removalsNow() int {
	n := 0
	for _, l := range e.FS.LogFrom(0) {
		if l.Kind == vfs.OpRemove && l.FType == "table" {
			n++
		}
	}
	return n
}

// walk applies the moves to the iterator and the cursor and compares.
func (e *Env) walk(h *iterH, moves []Move) error {
	it, cur := h.it, h.cur
	// A pair exposed earlier must be intact until the iterator moves.
	if h.had {
		if !it.Valid() || !bytes.Equal(it.Key(), h.lastK) || !bytes.Equal(it.Value(), h.lastV) {
			return e.fail("iterator: pair under the cursor changed without a move: had %q=%s, now valid=%v %q=%s",
				h.lastK, short(h.lastV), it.Valid(), it.Key(), short(it.Value()))
		}
	}
	lastDir := 0
	for n, mv := range moves {
		var got, want bool
		dir := 0
		switch mv.M {
		case "first":
			got, want = it.First(), cur.First()
		case "last":
			got, want = it.Last(), cur.Last()
		case "seek":
			k := e.key(mv.K)
			// the key goes into the iterator's one reusable buffer (followed by guard bytes): the
			// next Seek refills the same memory with another key
			const tail = 24
			if cap(h.seekBuf) < len(k)+tail {
				h.seekBuf = make([]byte, 0, 2*(len(k)+tail))
			}
			buf := h.seekBuf[:len(k)+tail]
			copy(buf, k)
			for j := len(k); j < len(buf); j++ {
				buf[j] = 0xC3 ^ byte(j)
			}
			ref := append([]byte{}, buf...)
			ka := buf[:len(k)]
			got, want = it.Seek(ka), cur.Seek(k)
			if !bytes.Equal(buf, ref) {
				return e.fail("iterator Seek(%q) modified its key argument or the caller's bytes behind it", k)
			}
			if e.C.Poison {
				scribble(buf)
			}
			e.St.Seeks++
		case "next":
			got, want = it.Next(), cur.Next()
			dir = 1
		case "prev":
			got, want = it.Prev(), cur.Prev()
			dir = -1
		default:
			return fmt.Errorf("unknown move %q", mv.M)
		}
		e.St.Moves++
		if dir != 0 && lastDir != 0 && dir != lastDir {
			e.St.Reversals++
		}
		if dir != 0 {
			lastDir = dir
		}
		if got != want {
			return e.fail("iterator move #%d %s(%v) returned %v, cursor model says %v (model pos %d of %d; iterator err=%v)", n, mv.M, mvKey(e, mv), got, want, cur.P, len(cur.L), it.Error())
		}
		if it.Valid() != want {
			return e.fail("iterator move #%d %s: Valid()=%v but the move returned %v", n, mv.M, it.Valid(), want)
		}
		if want {
			kv := cur.Cur()
			if !bytes.Equal(it.Key(), kv.K) {
				return e.fail("iterator move #%d %s(%v): at key %q, cursor model at %q", n, mv.M, mvKey(e, mv), it.Key(), kv.K)
			}
			if !bytes.Equal(it.Value(), kv.V) {
				return e.fail("iterator move #%d %s: key %q value %s, model %s", n, mv.M, kv.K, short(it.Value()), short(kv.V))
			}
		} else if it.Key() != nil || it.Value() != nil {
			return e.fail("iterator move #%d %s: not valid but Key/Value non-nil (%q)", n, mv.M, it.Key())
		}
	}
	if err := it.Error(); err != nil {
		return e.fail("iterator error: %v", err)
	}
	h.had = it.Valid()
	if h.had {
		h.lastK = append(h.lastK[:0], it.Key()...)
		h.lastV = append(h.lastV[:0], it.Value()...)
	}
	if h.comp {
		e.St.SnapReadsAfterComp++
	}
	return nil
}

func mvKey(e *Env, mv Move) string {
	if mv.M == "seek" {
		return fmt.Sprintf("%q", e.key(mv.K))
	}
	return ""
}

// finishIter makes a full forward and a full backward pass, then releases.
func (e *Env) finishIter(h *iterH) error {
	it := h.it
	defer it.Release()
	var fwd, bwd []model.KV
	for ok := it.First(); ok; ok = it.Next() {
		fwd = append(fwd, model.KV{K: append([]byte{}, it.Key()...), V: append([]byte{}, it.Value()...)})
	}
	for ok := it.Last(); ok; ok = it.Prev() {
		bwd = append(bwd, model.KV{K: append([]byte{}, it.Key()...), V: append([]byte{}, it.Value()...)})
	}
	if err := it.Error(); err != nil {
		return e.fail("iterator error: %v", err)
	}
	if err := e.cmpList("forward pass", fwd, h.cur.L); err != nil {
		return err
	}
	rev := make([]model.KV, len(h.cur.L))
	for i, kv := range h.cur.L {
		rev[len(rev)-1-i] = kv
	}
	if err := e.cmpList("backward pass", bwd, rev); err != nil {
		return err
	}
	if n := e.removalsNow() - h.removedAt; n > 0 {
		e.St.IterPinnedRemovals += n
	}
	if d := e.nVersions() - h.versAtOpen; d > e.St.MaxVersionsBehindIter {
		e.St.MaxVersionsBehindIter = d
	}
	if h.comp {
		e.St.SnapReadsAfterComp++
	}
	if miss := e.FS.MissingOpens(); miss > 0 {
		return e.fail("a table file that no longer exists was opened %d time(s)", miss)
	}
	return nil
}

// Finish runs the end-of-case checks and closes.
func (e *Env) Finish() error {
	e.opIdx = len(e.C.Ops)
	for len(e.iters) > 0 {
		h := e.iters[0]
		e.iters = e.iters[1:]
		if err := e.finishIter(h); err != nil {
			return err
		}
	}
	for _, h := range e.snaps {
		if err := e.scanHandle(h); err != nil {
			return err
		}
		h.s.Release()
	}
	e.snaps = nil
	if e.Tr != nil {
		e.Tr.Discard()
		e.Tr, e.TrM = nil, nil
		e.St.TrDiscards++
	}
	if err := e.idle(true); err != nil {
		return err
	}
	e.pollStats()
	if err := e.Sweep(); err != nil {
		return err
	}
	for _, l := range e.FS.LogFrom(0) {
		if l.Kind == vfs.OpCreate && l.FType == "manifest" {
			e.St.ManifestCreates++
		}
	}
	if miss := e.FS.MissingOpens(); miss > 0 {
		return e.fail("a table file that no longer exists was opened %d time(s)", miss)
	}
	return e.Close()
}

// Run executes a case; it returns the statistics and the first violation.
// Run executes a case. The steps run in their own goroutine under a watchdog: if a call
// has not returned and the storage has not seen a single operation for HangSeconds, the
// call is reported as one that never returns (with the stacks of the goroutines inside the
// DB). Elapsed time alone is never the criterion - a slow machine keeps making progress.
func Run(c *Case) (st *Stats, err error) {
	type res struct {
		st  *Stats
		err error
	}
	var cur atomic.Int64
	envC := make(chan *Env, 1)
	done := make(chan res, 1)
	go func() {
		st, err := run(c, &cur, envC)
		done <- res{st, err}
	}()
	e := <-envC
	last, lastAt := -1, time.Now()
	tick := time.NewTicker(500 * time.Millisecond)
	defer tick.Stop()
	for {
		select {
		case r := <-done:
			return r.st, r.err
		case <-tick.C:
			if n := e.FS.Ops() + e.FS.Reads(); n != last {
				last, lastAt = n, time.Now()
			} else if time.Since(lastAt) > time.Duration(HangSeconds)*time.Second {
				i := int(cur.Load())
				what := "Open/Finish"
				if i >= 0 && i < len(c.Ops) {
					what = c.Ops[i].T
				}
				stx := e.St
				return &stx, &Violation{Op: i, Msg: fmt.Sprintf("step %d (%s) did not return: the call is still in progress and the storage has not seen an operation for %ds\n%s", i, what, HangSeconds, dbStacks())}
			}
		}
	}
}

// HangSeconds is the no-progress bound of the watchdog in Run.
var HangSeconds = 40

func dbStacks() string {
	buf := make([]byte, 1<<20)
	n := runtime.Stack(buf, true)
	var out []string
	for _, g := range strings.Split(string(buf[:n]), "\n\n") {
		if strings.Contains(g, "goleveldb/leveldb") {
			lines := strings.Split(g, "\n")
			if len(lines) > 16 {
				lines = lines[:16]
			}
			out = append(out, strings.Join(lines, "\n"))
		}
		if len(out) >= 12 {
			break
		}
	}
	return strings.Join(out, "\n\n")
}

func run(c *Case, cur *atomic.Int64, envC chan *Env) (st *Stats, err error) {
	e := NewEnv(c)
	LastEnv = e
	cur.Store(-1)
	envC <- e
	defer func() {
		if x := recover(); x != nil {
			err = e.fail("panic in the calling goroutine: %v\n%s", x, debug.Stack())
		}
		if err != nil {
			func() {
				defer func() { recover() }()
				e.Abort()
			}()
		}
		st = &e.St
	}()
	if err = e.Open(); err != nil {
		return
	}
	for i := range c.Ops {
		cur.Store(int64(i))
		if err = e.Step(i, &c.Ops[i]); err != nil {
			return
		}
	}
	cur.Store(int64(len(c.Ops)))
	err = e.Finish()
	return
}

// LastEnv is the executor of the most recent Run (debugging aid).
var LastEnv *Env

var _ = errors.New
var _ = storage.TypeAll
var _ gen.Hex

// ReleaseHandles finishes all iterators (with their end-of-life checks),
// releases snapshots and discards an open transaction; the DB stays open.
func (e *Env) ReleaseHandles() error {
	for len(e.iters) > 0 {
		h := e.iters[0]
		e.iters = e.iters[1:]
		if err := e.finishIter(h); err != nil {
			return err
		}
	}
	for _, h := range e.snaps {
		if err := e.scanHandle(h); err != nil {
			return err
		}
		h.s.Release()
	}
	e.snaps = nil
	if e.Tr != nil && !e.KeepTr {
		e.Tr.Discard()
		e.Tr, e.TrM = nil, nil
		e.St.TrDiscards++
	}
	return nil
}

// OpenWith opens the DB through the given function (e.g. leveldb.Recover)
// with the executor's observers installed.
func (e *Env) OpenWith(what string, open func() (*leveldb.DB, error)) error {
	leveldb.VerifSetVersionObserver(func(p *leveldb.VerifVersion) bool {
		e.pinMu.Lock()
		defer e.pinMu.Unlock()
		e.versions++
		if e.C.Tree {
			e.pinned = append(e.pinned, p)
			return true
		}
		return false
	})
	e.opens++
	db, err := open()
	if err != nil {
		leveldb.VerifSetVersionObserver(nil)
		return e.fail("%s failed: %v", what, err)
	}
	e.DB = db
	return e.drainPinned()
}

// SetOpIdx sets the operation index used in violation messages.
func (e *Env) SetOpIdx(i int) { e.opIdx = i }

// Idle waits for background work and runs the idle-time checks.
func (e *Env) Idle() error { return e.idle(true) }

// NewEnvOn prepares an executor on an existing storage whose logical contents
// are m (used to continue with a recovered DB).
func NewEnvOn(c *Case, fs *vfs.FS, m *model.Map) *Env {
	e := NewEnv(c)
	e.FS = fs
	e.M = m
	e.installHooks()
	return e
}
