// Package evid collects what a run covered and writes it as an evidence
// fragment (one per worker process); the driver merges fragments.
package evid

import (
	"encoding/json"
	"hash/fnv"
	"os"
	"sort"
	"sync"
	"time"
)

// Rec is a thread-safe evidence recorder.
type Rec struct {
	mu       sync.Mutex
	Property string
	start    time.Time
	evals    int
	nontriv  int
	fps      map[uint64]struct{}
	classes  map[string]int
	counters map[string]int
	samples  []any
	maxSamp  int
	fpCap    int
	fpOver   int
	notes    []string
}

// New returns a recorder.
func New(prop string) *Rec {
	return &Rec{Property: prop, start: time.Now(), fps: map[uint64]struct{}{}, classes: map[string]int{},
		counters: map[string]int{}, maxSamp: 4, fpCap: 400000}
}

// FP fingerprints a JSON-serialisable value.
func FP(v any) uint64 {
	b, _ := json.Marshal(v)
	h := fnv.New64a()
	h.Write(b)
	return h.Sum64()
}

// Case records one executed case.
func (r *Rec) Case(fp uint64, nontrivial bool, classes ...string) {
	r.mu.Lock()
	defer r.mu.Unlock()
	r.evals++
	if nontrivial {
		r.nontriv++
		if len(r.fps) < r.fpCap {
			r.fps[fp] = struct{}{}
		} else if _, ok := r.fps[fp]; !ok {
			r.fpOver++
		}
	}
	for _, c := range classes {
		r.classes[c]++
	}
}

// WantSample reports whether another sample is wanted.
func (r *Rec) WantSample() bool {
	r.mu.Lock()
	defer r.mu.Unlock()
	return len(r.samples) < r.maxSamp
}

// Sample stores a sample case (only the first few are kept).
func (r *Rec) Sample(v any) {
	r.mu.Lock()
	defer r.mu.Unlock()
	if len(r.samples) < r.maxSamp {
		r.samples = append(r.samples, v)
	}
}

// Add adds n to a named counter.
func (r *Rec) Add(name string, n int) {
	r.mu.Lock()
	r.counters[name] += n
	r.mu.Unlock()
}

// Class adds n to a class histogram entry without counting a case.
func (r *Rec) Class(name string, n int) {
	r.mu.Lock()
	r.classes[name] += n
	r.mu.Unlock()
}

// Note adds a free-text note.
func (r *Rec) Note(s string) {
	r.mu.Lock()
	r.notes = append(r.notes, s)
	r.mu.Unlock()
}

// Evals returns the number of cases so far.
func (r *Rec) Evals() int { r.mu.Lock(); defer r.mu.Unlock(); return r.evals }

type fragment struct {
	Property   string         `json:"property"`
	Evals      int            `json:"evaluations"`
	Nontrivial int            `json:"nontrivial"`
	FPs        []uint64       `json:"fps"`
	FPOverflow int            `json:"fp_overflow"`
	Classes    map[string]int `json:"classes"`
	Counters   map[string]int `json:"counters"`
	Samples    []any          `json:"samples"`
	Notes      []string       `json:"notes,omitempty"`
	WallS      float64        `json:"wall_s"`
}

// Flush writes the fragment to the file named by VERIF_EVID (if set).
func (r *Rec) Flush() {
	path := os.Getenv("VERIF_EVID")
	if path == "" {
		return
	}
	r.mu.Lock()
	defer r.mu.Unlock()
	f := fragment{Property: r.Property, Evals: r.evals, Nontrivial: r.nontriv, FPOverflow: r.fpOver,
		Classes: r.classes, Counters: r.counters, Samples: r.samples, Notes: r.notes,
		WallS: time.Since(r.start).Seconds()}
	for fp := range r.fps {
		f.FPs = append(f.FPs, fp)
	}
	sort.Slice(f.FPs, func(i, j int) bool { return f.FPs[i] < f.FPs[j] })
	b, err := json.Marshal(f)
	if err != nil {
		return
	}
	tmp := path + ".tmp"
	if os.WriteFile(tmp, b, 0o644) == nil {
		os.Rename(tmp, path)
	}
}
