module verif

go 1.23

require (
	github.com/anishathalye/porcupine v1.3.0
	github.com/syndtr/goleveldb v0.0.0
	pgregory.net/rapid v1.3.0
)

require github.com/golang/snappy v0.0.4

replace github.com/syndtr/goleveldb => /repo
