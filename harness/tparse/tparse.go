// Package tparse is the checker's own, minimal reader of the sorted-table
// file format: it lists the data blocks of a table with their byte extents
// and entries. It is used to decide which entries sit in which block before a
// table is damaged (C19).
package tparse

import (
	"encoding/binary"
	"errors"
	"fmt"

	"github.com/golang/snappy"
)

const (
	footerLen  = 48
	trailerLen = 5
)

// Entry is one key/value pair of a block.
type Entry struct {
	Key, Value []byte
}

// Block is one data block.
type Block struct {
	Off, Len int // extent of the block contents including the 5-byte trailer
	Entries  []Entry
}

func readBlock(data []byte, off, n uint64) ([]byte, error) {
	if off+n+trailerLen > uint64(len(data)) {
		return nil, errors.New("block handle out of range")
	}
	raw := data[off : off+n]
	switch data[off+n] {
	case 0:
		return raw, nil
	case 1:
		return snappy.Decode(nil, raw)
	}
	return nil, fmt.Errorf("unknown compression type %d", data[off+n])
}

func entries(b []byte) ([]Entry, error) {
	if len(b) < 4 {
		return nil, errors.New("block too short")
	}
	nr := int(binary.LittleEndian.Uint32(b[len(b)-4:]))
	end := len(b) - 4*(nr+1)
	if end < 0 {
		return nil, errors.New("bad restart count")
	}
	var out []Entry
	var prev []byte
	for p := 0; p < end; {
		shared, n1 := binary.Uvarint(b[p:])
		nonshared, n2 := binary.Uvarint(b[p+n1:])
		vlen, n3 := binary.Uvarint(b[p+n1+n2:])
		if n1 <= 0 || n2 <= 0 || n3 <= 0 {
			return nil, errors.New("bad entry header")
		}
		p += n1 + n2 + n3
		if int(shared) > len(prev) || p+int(nonshared)+int(vlen) > end {
			return nil, errors.New("bad entry lengths")
		}
		k := append(append([]byte{}, prev[:shared]...), b[p:p+int(nonshared)]...)
		p += int(nonshared)
		v := append([]byte{}, b[p:p+int(vlen)]...)
		p += int(vlen)
		out = append(out, Entry{k, v})
		prev = k
	}
	return out, nil
}

// Parse lists the data blocks of a table file.
func Parse(data []byte) ([]Block, error) {
	if len(data) < footerLen {
		return nil, errors.New("file too short")
	}
	f := data[len(data)-footerLen:]
	_, n := binary.Uvarint(f) // metaindex offset
	_, m := binary.Uvarint(f[n:])
	p := n + m
	ioff, n := binary.Uvarint(f[p:])
	ilen, m := binary.Uvarint(f[p+n:])
	if n <= 0 || m <= 0 {
		return nil, errors.New("bad footer")
	}
	ib, err := readBlock(data, ioff, ilen)
	if err != nil {
		return nil, fmt.Errorf("index block: %v", err)
	}
	ie, err := entries(ib)
	if err != nil {
		return nil, fmt.Errorf("index block: %v", err)
	}
	var out []Block
	for _, e := range ie {
		off, n := binary.Uvarint(e.Value)
		ln, m := binary.Uvarint(e.Value[n:])
		if n <= 0 || m <= 0 {
			return nil, errors.New("bad block handle in index")
		}
		db, err := readBlock(data, off, ln)
		if err != nil {
			return nil, fmt.Errorf("data block at %d: %v", off, err)
		}
		es, err := entries(db)
		if err != nil {
			return nil, fmt.Errorf("data block at %d: %v", off, err)
		}
		out = append(out, Block{Off: int(off), Len: int(ln) + trailerLen, Entries: es})
	}
	return out, nil
}
