package checks

import (
	"testing"

	"pgregory.net/rapid"

	"verif/evid"
)

// C09 (fault half): no call blocks forever and Close always returns. The
// fault engine of C08 is run in strict mode: a call that has not returned 3 s
// after it was issued makes the watchdog stop all injected failures; if it
// has still not returned 12 s later and two goroutine dumps 1.5 s apart show
// the same parked goroutines (none runnable, sleeping or in a syscall), the DB
// is in a stable blocked state and the property is violated.
func TestC09(t *testing.T) {
	if replayFile() != "" {
		c := &ECase{}
		if err := loadReplay(c); err != nil {
			t.Fatal(err)
		}
		for i := 0; i < envInt("VERIF_REPLAY_RUNS", 3); i++ {
			if _, err := runFaultsMode(c, true); err != nil {
				t.Fatalf("replay failed: %v", err)
			}
		}
		return
	}
	rec := evid.New("C09")
	defer rec.Flush()
	rapid.Check(t, func(rt *rapid.T) {
		c := drawECase(rt, nil) // C09 only decides whether calls return, so the F9 trigger is not excluded here
		c.DamageBlk = 0
		saveJSON("VERIF_INFLIGHT", c)
		st, err := runFaultsMode(c, true)
		if err != nil {
			reportFail("C09", c, err)
			rt.Fatalf("C09 violated: %v", err)
		}
		var cl []string
		seen := map[string]bool{}
		lockPath := false
		for _, f := range st.fired {
			k := "fired:" + f.Kind + "-" + f.FType
			if !seen[k] {
				seen[k] = true
				cl = append(cl, k)
			}
			// faults on the paths that hold the write lock or the commit lock
			if f.FType == "journal" || f.FType == "manifest" || (f.FType == "table" && (f.Kind == "create" || f.Kind == "write" || f.Kind == "sync")) {
				lockPath = true
			}
		}
		if st.hung {
			cl = append(cl, "inconclusive-slow-call")
			rec.Add("inconclusive", 1)
			rec.Note(st.slowInfo)
			saveJSON("VERIF_SLOWCASE", c)
		}
		nt := lockPath && st.opsAfterFault > 0
		rec.Case(evid.FP(c), nt, cl...)
		if nt && rec.WantSample() {
			rec.Sample(map[string]any{"faults": c.Faults, "armat": c.ArmAt, "healat": c.HealAt, "ops": len(c.Ops), "fired": describeFired(st.fired)})
		}
	})
}
