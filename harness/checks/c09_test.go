package checks

import (
	"strings"
	"testing"

	"pgregory.net/rapid"

	"verif/evid"
	"verif/vfs"
)

// C09 (fault half): no call blocks forever and Close always returns. The
// fault engine of C08 is run in strict mode: a call that has not returned 3 s
// after it was issued makes the watchdog stop all injected failures; if it
// has still not returned 12 s later and two goroutine dumps 1.5 s apart show
// the same parked goroutines (none runnable, sleeping or in a syscall), the DB
// is in a stable blocked state and the property is violated.
func TestC09(t *testing.T) {
	if replayFile() != "" {
		c := &ECase{}
		if err := loadReplay(c); err != nil {
			t.Fatal(err)
		}
		for i := 0; i < envInt("VERIF_REPLAY_RUNS", 3); i++ {
			if _, err := runFaultsMode(c, true); err != nil {
				t.Fatalf("replay failed: %v", err)
			}
		}
		return
	}
	rec := evid.New("C09")
	defer rec.Flush()
	rapid.Check(t, func(rt *rapid.T) {
		c := drawECase(rt, nil) // C09 only decides whether calls return, so the F9 trigger is not excluded here
		c.DamageBlk = 0
		saveJSON("VERIF_INFLIGHT", c)
		st, err := runFaultsMode(c, true)
		if err != nil {
			reportFail("C09", c, err)
			rt.Fatalf("C09 violated: %v", err)
		}
		var cl []string
		seen := map[string]bool{}
		lockPath := false
		for _, f := range st.fired {
			k := "fired:" + f.Kind + "-" + f.FType
			if !seen[k] {
				seen[k] = true
				cl = append(cl, k)
			}
			// faults on the paths that hold the write lock or the commit lock
			if f.FType == "journal" || f.FType == "manifest" || (f.FType == "table" && (f.Kind == "create" || f.Kind == "write" || f.Kind == "sync")) {
				lockPath = true
			}
		}
		if st.hung {
			cl = append(cl, "inconclusive-slow-call")
			rec.Add("inconclusive", 1)
			rec.Note(st.slowInfo)
			saveJSON("VERIF_SLOWCASE", c)
		}
		nt := lockPath && st.opsAfterFault > 0
		rec.Case(evid.FP(c), nt, cl...)
		if nt && rec.WantSample() {
			rec.Sample(map[string]any{"faults": c.Faults, "armat": c.ArmAt, "healat": c.HealAt, "ops": len(c.Ops), "fired": describeFired(st.fired)})
		}
	})
}

// TestC09W is the concurrent half of C09: the writer programs of C10 (2-12
// concurrent writers, a racing Close / transaction / CompactRange /
// SetReadOnly, journal faults in most cases), judged only on whether every
// call returns.
func TestC09W(t *testing.T) {
	if replayFile() != "" {
		c := &WCase{}
		if err := loadReplay(c); err != nil {
			t.Fatal(err)
		}
		for i := 0; i < envInt("VERIF_REPLAY_RUNS", 30); i++ {
			if _, err := runWriters(c); err != nil && isHang(err) {
				t.Fatalf("replay failed (run %d): %v", i, err)
			}
		}
		return
	}
	rec := evid.New("C09")
	defer rec.Flush()
	rapid.Check(t, func(rt *rapid.T) {
		c := drawWCase(rt)
		if c.Fault == nil && rapid.IntRange(0, 2).Draw(rt, "forcefault") != 0 {
			c.Fault = &vfs.Fault{Kind: rapid.SampledFrom([]string{vfs.OpWrite, vfs.OpSync, vfs.OpCreate}).Draw(rt, "fk2"), FType: "journal",
				Nth: rapid.IntRange(1, 12).Draw(rt, "nth2"), Count: rapid.SampledFrom([]int{1, 3}).Draw(rt, "cnt2")}
		}
		saveJSON("VERIF_INFLIGHT", c)
		st, err := runWriters(c)
		if err != nil && isHang(err) {
			reportFail("C09", c, err)
			rt.Fatalf("C09 violated: %v", err)
		}
		var cl []string
		if st.failedGroups > 0 {
			cl = append(cl, "writers:failed-group")
		}
		if st.racer {
			cl = append(cl, "writers:racer-"+c.Racer)
		}
		nt := st.multi > 0 && (st.failedGroups > 0 || st.racer)
		rec.Case(evid.FP(c), nt, append(cl, "concurrent-writers")...)
	})
}

func isHang(err error) bool {
	m := err.Error()
	return strings.Contains(m, "did not all return") || strings.Contains(m, "never returned")
}
