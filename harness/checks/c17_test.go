package checks

import (
	"fmt"
	"runtime"
	"sync"
	"sync/atomic"
	"testing"

	"github.com/syndtr/goleveldb/leveldb/cache"
	"pgregory.net/rapid"

	"verif/evid"
)

// CCase is a cache program: phases of concurrent goroutine scripts with a
// barrier (all handles released) after each phase.
type CCase struct {
	Cap      int       `json:"cap"` // LRU capacity; -1: NewCache(nil)
	KeySpace int       `json:"keyspace"`
	NSpace   int       `json:"nspace"`
	Phases   [][][]COp `json:"phases"` // phase -> goroutine -> ops
	Force    bool      `json:"force"`  // final Close(force)
	Procs    int       `json:"procs,omitempty"`
	Late     int       `json:"late,omitempty"`   // handles taken before Close and released only after it (the second one is also Deleted while held)
	Spread   int       `json:"spread,omitempty"` // 0: small keys; 1: every other key/namespace has the top bit set; 2: keys scattered over all 64 bits
}

func (c *CCase) spread(x uint64) uint64 {
	switch c.Spread {
	case 1:
		if x&1 == 1 {
			return x | 1<<63
		}
	case 2:
		return x * 0x9e3779b97f4a7c15
	}
	return x
}

// COp is one cache operation: get rel del evict evictns evictall setcap
type COp struct {
	T    string `json:"t"`
	NS   int    `json:"ns,omitempty"`
	K    int    `json:"k,omitempty"`
	Size int    `json:"size,omitempty"`
	Hold int    `json:"hold,omitempty"` // get: release the handle after this many further ops of the goroutine
	Cap  int    `json:"cap,omitempty"`
}

type cVal struct {
	ns, key   uint64
	id        int64
	size      int
	out       int32 // handles the harness currently holds on this value
	finalized int32
	h         *cHarness
}

func (v *cVal) Release() {
	if n := atomic.AddInt32(&v.finalized, 1); n != 1 {
		v.h.fail("value #%d of (%d,%d) finalised %d times", v.id, v.ns, v.key, n)
	}
	if atomic.LoadInt32(&v.h.forceClosed) == 0 {
		if o := atomic.LoadInt32(&v.out); o > 0 {
			v.h.fail("value #%d of (%d,%d) finalised while %d handle(s) to it were outstanding", v.id, v.ns, v.key, o)
		}
	}
}

type cSlot struct {
	mu  sync.Mutex
	cur *cVal
}

type cHarness struct {
	failedCtors                  int64
	c                            *cache.Cache
	slots                        sync.Map // [2]uint64 -> *cSlot
	all                          []*cVal
	allMu                        sync.Mutex
	nextID                       int64
	err                          atomic.Value
	forceClosed                  int32
	delIssued                    int64
	delRan                       int64
	sameKeyOverlap, delWhileHeld int64
}

func (h *cHarness) fail(format string, a ...any) {
	h.err.CompareAndSwap(nil, fmt.Errorf(format, a...))
}

func (h *cHarness) slot(ns, key uint64) *cSlot {
	k := [2]uint64{ns, key}
	if s, ok := h.slots.Load(k); ok {
		return s.(*cSlot)
	}
	s, _ := h.slots.LoadOrStore(k, &cSlot{})
	return s.(*cSlot)
}

type heldHandle struct {
	h   *cache.Handle
	v   *cVal
	due int
}

func (h *cHarness) get(ns, key uint64, size int) *heldHandle {
	sl := h.slot(ns, key)
	// three ways to ask (picked by the arguments, no extra draw): plain Get, through a
	// NamespaceGetter (the way table readers use the block cache), and a lookup-only Get
	// (nil constructor) that falls back to a constructing Get when the key is not cached
	mode := (key ^ uint64(size)) % 3
	if mode == 2 {
		if hd := h.c.Get(ns, key, nil); hd != nil {
			return h.adopt(ns, key, hd)
		}
	}
	getter := func(f func() (int, cache.Value)) *cache.Handle { return h.c.Get(ns, key, f) }
	if mode == 1 {
		g := &cache.NamespaceGetter{Cache: h.c, NS: ns}
		getter = func(f func() (int, cache.Value)) *cache.Handle { return g.Get(key, f) }
	}
	hd := getter(func() (int, cache.Value) {
		if (key^uint64(size))%11 == 7 {
			// a constructor that fails: no value, no handle
			atomic.AddInt64(&h.failedCtors, 1)
			return 0, nil
		}
		v := &cVal{ns: ns, key: key, id: atomic.AddInt64(&h.nextID, 1), size: size, h: h}
		sl.mu.Lock()
		if p := sl.cur; p != nil && atomic.LoadInt32(&p.finalized) == 0 && atomic.LoadInt32(&p.out) > 0 {
			h.fail("constructor for (%d,%d) ran while value #%d of the same key still had %d outstanding handle(s)", ns, key, p.id, atomic.LoadInt32(&p.out))
		}
		sl.cur = v
		sl.mu.Unlock()
		h.allMu.Lock()
		h.all = append(h.all, v)
		h.allMu.Unlock()
		return size, v
	})
	if hd == nil {
		return nil
	}
	return h.adopt(ns, key, hd)
}

// adopt checks a handle the cache handed out for (ns,key) and registers it as outstanding.
func (h *cHarness) adopt(ns, key uint64, hd *cache.Handle) *heldHandle {
	v, _ := hd.Value().(*cVal)
	if v == nil {
		h.fail("Get(%d,%d) returned a handle without a value", ns, key)
		hd.Release()
		return nil
	}
	if o := atomic.AddInt32(&v.out, 1); o > 1 {
		atomic.AddInt64(&h.sameKeyOverlap, 1)
	}
	if atomic.LoadInt32(&v.finalized) != 0 {
		h.fail("Get(%d,%d) handed out value #%d which was already finalised", ns, key, v.id)
	}
	if v.ns != ns || v.key != key {
		h.fail("Get(%d,%d) returned the value of (%d,%d)", ns, key, v.ns, v.key)
	}
	return &heldHandle{h: hd, v: v}
}

func (h *cHarness) release(x *heldHandle) {
	if atomic.LoadInt32(&x.v.finalized) != 0 && atomic.LoadInt32(&h.forceClosed) == 0 {
		h.fail("value #%d of (%d,%d) was finalised while a handle to it was still held", x.v.id, x.v.ns, x.v.key)
	}
	atomic.AddInt32(&x.v.out, -1)
	x.h.Release()
	x.h.Release() // releasing twice is documented as safe
}

func (h *cHarness) del(ns, key uint64) {
	sl := h.slot(ns, key)
	sl.mu.Lock()
	v0 := sl.cur
	sl.mu.Unlock()
	if v0 != nil && atomic.LoadInt32(&v0.out) > 0 {
		atomic.AddInt64(&h.delWhileHeld, 1)
	}
	atomic.AddInt64(&h.delIssued, 1)
	var ran int32
	h.c.Delete(ns, key, func() {
		if n := atomic.AddInt32(&ran, 1); n != 1 {
			h.fail("deletion callback of (%d,%d) ran %d times", ns, key, n)
		}
		atomic.AddInt64(&h.delRan, 1)
		if v0 != nil && atomic.LoadInt32(&h.forceClosed) == 0 {
			if o := atomic.LoadInt32(&v0.out); o > 0 {
				h.fail("deletion callback of (%d,%d) ran while %d handle(s) to value #%d were outstanding", ns, key, o, v0.id)
			}
		}
	})
}

type cStats struct {
	grow, shrink         int32
	sameKeyOverlap, delH int64
	vals                 int
}

func runCache(c *CCase) (st cStats, err error) {
	if c.Procs > 0 {
		defer runtime.GOMAXPROCS(runtime.GOMAXPROCS(c.Procs))
	}
	var cacher cache.Cacher
	if c.Cap >= 0 {
		cacher = cache.NewLRU(c.Cap)
	}
	h := &cHarness{c: cache.NewCache(cacher)}
	for pi, phase := range c.Phases {
		var wg sync.WaitGroup
		for gi, ops := range phase {
			wg.Add(1)
			go func(gi int, ops []COp) {
				defer wg.Done()
				defer func() {
					if x := recover(); x != nil {
						h.fail("goroutine %d panicked: %v", gi, x)
					}
				}()
				var held []*heldHandle
				var stale []*cache.Handle // already released; releasing them again later must stay harmless
				for i, op := range ops {
					if i%7 == 6 {
						for _, sh := range stale {
							sh.Release()
						}
						stale = stale[:0]
					}
					ns, key := c.spread(uint64(op.NS%max1(c.NSpace))), c.spread(uint64(op.K%max1(c.KeySpace)))
					switch op.T {
					case "get":
						if x := h.get(ns, key, op.Size); x != nil {
							x.due = i + op.Hold
							held = append(held, x)
						}
					case "fill":
						// many distinct keys at once, so that the hash map grows past its resize thresholds
						for j := 0; j < op.Size; j++ {
							if x := h.get(ns, c.spread(uint64((op.K+j)%max1(c.KeySpace))), 1); x != nil {
								x.due = i + op.Hold
								held = append(held, x)
							}
						}
					case "del":
						h.del(ns, key)
					case "evict":
						h.c.Evict(ns, key)
					case "evictns":
						h.c.EvictNS(ns)
					case "evictall":
						h.c.EvictAll()
					case "setcap":
						h.c.SetCapacity(op.Cap)
					}
					k := 0
					for _, x := range held {
						if x.due <= i {
							h.release(x)
							if len(stale) < 16 {
								stale = append(stale, x.h)
							}
						} else {
							held[k] = x
							k++
						}
					}
					held = held[:k]
				}
				for _, x := range held {
					h.release(x)
				}
			}(gi, ops)
		}
		wg.Wait()
		if e := h.err.Load(); e != nil {
			return st, fmt.Errorf("phase %d: %v", pi, e.(error))
		}
		// barrier: no handle is outstanding
		live, sum := 0, 0
		h.allMu.Lock()
		for _, v := range h.all {
			if atomic.LoadInt32(&v.finalized) == 0 {
				live++
				sum += v.size
			}
		}
		h.allMu.Unlock()
		if capNow := h.c.Capacity(); sum > capNow {
			return st, fmt.Errorf("phase %d barrier: entries retained with all handles released have total charge %d > capacity %d", pi, sum, capNow)
		}
		if h.c.Size() != sum || h.c.Nodes() != live {
			return st, fmt.Errorf("phase %d barrier: Size()=%d Nodes()=%d, but %d live values with total charge %d", pi, h.c.Size(), h.c.Nodes(), live, sum)
		}
		// no handle is outstanding, so every deletion callback registered so far is due ("executed if such node
		// doesn't exist or once the node is released"): a deleted entry that the replacement policy still keeps
		// would go on being served and its callback would wait for an unrelated eviction
		if a, b := atomic.LoadInt64(&h.delIssued), atomic.LoadInt64(&h.delRan); a != b {
			return st, fmt.Errorf("phase %d barrier: %d deletion callbacks were registered and every handle has been released, but only %d ran", pi, a, b)
		}
	}
	gs := h.c.GetStats()
	st.grow, st.shrink = gs.GrowCount, gs.ShrinkCount
	var late []*heldHandle
	for j := 0; j < c.Late; j++ {
		ns, key := c.spread(uint64(j%max1(c.NSpace))), c.spread(uint64(j*7%max1(c.KeySpace)))
		if x := h.get(ns, key, 1); x != nil {
			late = append(late, x)
			if j == 1 {
				h.del(ns, key)
			}
		}
	}
	if c.Force {
		atomic.StoreInt32(&h.forceClosed, 1)
	}
	h.c.Close(c.Force)
	for _, x := range late {
		h.release(x)
	}
	if e := h.err.Load(); e != nil {
		return st, fmt.Errorf("close: %v", e.(error))
	}
	h.allMu.Lock()
	defer h.allMu.Unlock()
	st.vals = len(h.all)
	for _, v := range h.all {
		if n := atomic.LoadInt32(&v.finalized); n != 1 {
			return st, fmt.Errorf("after Close(%v) with all handles released, value #%d of (%d,%d) was finalised %d times", c.Force, v.id, v.ns, v.key, n)
		}
	}
	if a, b := atomic.LoadInt64(&h.delIssued), atomic.LoadInt64(&h.delRan); a != b {
		return st, fmt.Errorf("%d deletion callbacks were registered, %d ran", a, b)
	}
	if hd := h.c.Get(1, 1, func() (int, cache.Value) { return 1, &cVal{h: h} }); hd != nil {
		return st, fmt.Errorf("Get on a closed cache returned a handle")
	}
	st.sameKeyOverlap, st.delH = h.sameKeyOverlap, h.delWhileHeld
	return st, nil
}

func max1(x int) int {
	if x < 1 {
		return 1
	}
	return x
}

func drawCCase(t *rapid.T) *CCase {
	c := &CCase{}
	c.Cap = rapid.SampledFrom([]int{100, 10, 1, 0, 1000, 100000, -1}).Draw(t, "cap")
	c.KeySpace = rapid.SampledFrom([]int{8, 2000, 3, 40, 300}).Draw(t, "keyspace")
	c.NSpace = rapid.SampledFrom([]int{2, 1, 5}).Draw(t, "nspace")
	c.Spread = rapid.SampledFrom([]int{0, 0, 1, 2}).Draw(t, "spread")
	c.Late = rapid.SampledFrom([]int{0, 0, 1, 2, 3}).Draw(t, "late")
	c.Force = rapid.Bool().Draw(t, "force")
	c.Procs = rapid.SampledFrom([]int{0, 1, 2, 4}).Draw(t, "procs")
	maxOps := 200
	if c.KeySpace >= 300 {
		maxOps = 1500
	}
	og := rapid.Custom(func(t *rapid.T) COp {
		op := COp{T: rapid.SampledFrom([]string{"get", "get", "get", "get", "get", "get", "del", "evict", "fill", "evictns", "evictall", "setcap"}).Draw(t, "op")}
		if (op.T == "evictall" || op.T == "setcap" || op.T == "evictns") && rapid.IntRange(0, 3).Draw(t, "rare") != 0 {
			op.T = "get"
		}
		op.NS = rapid.IntRange(0, 4).Draw(t, "ns")
		op.K = rapid.IntRange(0, c.KeySpace-1).Draw(t, "k")
		switch op.T {
		case "get":
			op.Size = rapid.SampledFrom([]int{1, 1, 2, 5, 50}).Draw(t, "size")
			op.Hold = rapid.SampledFrom([]int{0, 0, 1, 3, 10, 1000}).Draw(t, "hold")
		case "fill":
			op.Size = rapid.SampledFrom([]int{700, 100, 1500}).Draw(t, "filln")
			op.Hold = rapid.SampledFrom([]int{0, 5, 1000}).Draw(t, "hold")
		case "setcap":
			op.Cap = rapid.SampledFrom([]int{0, 1, 10, 100, 100000}).Draw(t, "ncap")
		}
		return op
	})
	gg := rapid.SliceOfN(og, 20, maxOps)
	np := rapid.IntRange(1, 3).Draw(t, "phases")
	for p := 0; p < np; p++ {
		c.Phases = append(c.Phases, rapid.SliceOfN(gg, 2, 12).Draw(t, "phase"))
	}
	return c
}

// C17: the shared cache never hands out a dead value and respects its capacity.
func TestC17(t *testing.T) {
	if replayFile() != "" {
		c := &CCase{}
		if err := loadReplay(c); err != nil {
			t.Fatal(err)
		}
		for i := 0; i < envInt("VERIF_REPLAY_RUNS", 50); i++ {
			if _, err := runCache(c); err != nil {
				t.Fatalf("replay failed: %v", err)
			}
		}
		return
	}
	rec := evid.New("C17")
	defer rec.Flush()
	rapid.Check(t, func(rt *rapid.T) {
		c := drawCCase(rt)
		st, err := runCache(c)
		if err != nil {
			reportFail("C17", c, err)
			rt.Fatalf("C17 violated: %v", err)
		}
		var cl []string
		add := func(ok bool, s string) {
			if ok {
				cl = append(cl, s)
			}
		}
		add(st.grow > 0, "map-grew")
		add(st.shrink > 0, "map-shrank")
		add(st.sameKeyOverlap > 0, "overlapping-same-key-handles")
		add(c.Spread > 0, "keys-using-all-64-bits")
		add(c.Late > 0, "handles-released-after-close")
		add(st.delH > 0, "delete-while-handle-outstanding")
		add(c.Force, "close-force")
		add(c.Cap < 0, "no-cacher")
		nt := st.sameKeyOverlap > 0 && st.delH > 0
		rec.Case(evid.FP(c), nt, cl...)
		rec.Add("values_constructed", st.vals)
		if nt && st.grow > 0 && rec.WantSample() {
			rec.Sample(map[string]any{"cap": c.Cap, "keyspace": c.KeySpace, "phases": len(c.Phases), "goroutines_phase0": len(c.Phases[0]),
				"first_ops_goroutine0": c.Phases[0][0][:minInt(12, len(c.Phases[0][0]))], "stats": fmt.Sprintf("%+v", st)})
		}
	})
}

func minInt(a, b int) int {
	if a < b {
		return a
	}
	return b
}
