package checks

import (
	"bytes"
	"fmt"
	"runtime/debug"
	"sync"
	"testing"
	"time"

	"github.com/syndtr/goleveldb/leveldb"
	"github.com/syndtr/goleveldb/leveldb/opt"
	"github.com/syndtr/goleveldb/leveldb/storage"
	"github.com/syndtr/goleveldb/leveldb/util"
	"pgregory.net/rapid"

	"verif/dbm"
	"verif/evid"
	"verif/vfs"
)

// LCase is a lifecycle case: a prior history followed by lifecycle scenes.
type LCase struct {
	Base   *dbm.Case `json:"base"`
	Scenes []string  `json:"scenes"` // open2 | roopen | closed | released | race | setro (setro is terminal for the session: followed by closed)
	Reads  int       `json:"reads,omitempty"`
}

type lStats struct {
	roJournalOnly, closePending bool
	methodsAfterClose           int
	scenes                      map[string]int
}

func mutations(log []vfs.LogEntry) []vfs.LogEntry {
	var r []vfs.LogEntry
	for _, l := range log {
		switch l.Kind {
		case vfs.OpCreate, vfs.OpWrite, vfs.OpSync, vfs.OpRemove, vfs.OpRename, vfs.OpSetMet:
			r = append(r, l)
		}
	}
	return r
}

func within(d time.Duration, what string, f func()) error {
	done := make(chan struct{})
	go func() { defer close(done); f() }()
	select {
	case <-done:
		return nil
	case <-time.After(d):
		return fmt.Errorf("%s did not return within %v\n%s", what, d, goroutineDump())
	}
}

func readAll(e *dbm.Env, db *leveldb.DB, what string) error {
	for i := range e.C.Keys {
		k := append([]byte{}, e.C.Keys[i]...)
		want, ok := e.M.Get(k)
		got, err := db.Get(k, nil)
		if ok && (err != nil || !bytes.Equal(got, want)) {
			return fmt.Errorf("%s: Get(%q) = %.30q, %v; model has %.30q", what, k, got, err, want)
		}
		if !ok && err != leveldb.ErrNotFound {
			return fmt.Errorf("%s: Get(%q) = %.30q, %v; model says not found", what, k, got, err)
		}
		has, herr := db.Has(k, nil)
		if herr != nil || has != ok {
			return fmt.Errorf("%s: Has(%q) = %v, %v; model says %v", what, k, has, herr, ok)
		}
	}
	it := db.NewIterator(nil, nil)
	got, err := dbm.FullScan(it)
	it.Release()
	if err != nil {
		return fmt.Errorf("%s: scan error %v", what, err)
	}
	want := e.M.Sorted(e.Cmp.Compare, nil, nil)
	if len(got) != len(want) {
		return fmt.Errorf("%s: scan yields %d pairs, model has %d", what, len(got), len(want))
	}
	for i := range want {
		if !bytes.Equal(got[i].K, want[i].K) || !bytes.Equal(got[i].V, want[i].V) {
			return fmt.Errorf("%s: scan pair #%d is %q, model has %q", what, i, got[i].K, want[i].K)
		}
	}
	return nil
}

func expectErr(what string, got, want error) error {
	if got != want {
		return fmt.Errorf("%s returned %v, expected %v", what, got, want)
	}
	return nil
}

func runLifecycle(c *LCase) (st lStats, err error) {
	st.scenes = map[string]int{}
	defer func() {
		if x := recover(); x != nil {
			err = fmt.Errorf("panic: %v", x)
		}
	}()
	e := dbm.NewEnv(c.Base)
	defer e.Abort()
	if err := e.Open(); err != nil {
		return st, err
	}
	for i := range c.Base.Ops {
		if err := e.Step(i, &c.Base.Ops[i]); err != nil {
			return st, err
		}
	}
	// drop handles of the history; keep the DB open
	if err := e.ReleaseHandles(); err != nil {
		return st, err
	}
	key := func(i int) []byte {
		if len(c.Base.Keys) == 0 {
			return []byte("k")
		}
		return append([]byte{}, c.Base.Keys[i%len(c.Base.Keys)]...)
	}
	for si, scene := range c.Scenes {
		st.scenes[scene]++
		what := fmt.Sprintf("scene #%d %s", si, scene)
		switch scene {
		case "open2":
			db2, err := leveldb.Open(e.FS, e.O)
			if err == nil {
				db2.Close()
				return st, fmt.Errorf("%s: a second Open on a storage owned by an open DB succeeded", what)
			}
			if err != storage.ErrLocked {
				return st, fmt.Errorf("%s: second Open failed with %v, expected the storage's lock error", what, err)
			}
			if err := readAll(e, e.DB, what+" (first DB after the refused Open)"); err != nil {
				return st, err
			}

		case "roopen", "roopen-pending":
			if scene == "roopen-pending" {
				// Make the close happen with a buffer flush pending: table creation fails
				// from now on, one Put at least as large as the write buffer freezes the
				// buffer, and the failing flush is still being retried when Close arrives.
				// (first a Put of half the buffer while storage is healthy, so that the next one
				// needs exactly one buffer rotation and is itself not affected by the fault)
				if err := e.DB.VerifWaitIdle(); err != nil {
					return st, fmt.Errorf("%s: %v", what, err)
				}
				wb := e.O.GetWriteBuffer()
				k1, v1 := key(si), bytes.Repeat([]byte{'P'}, wb/2)
				if err := e.DB.Put(k1, v1, nil); err != nil {
					return st, fmt.Errorf("%s: Put: %v", what, err)
				}
				e.M.Put(k1, v1)
				if err := e.DB.VerifWaitIdle(); err != nil {
					return st, fmt.Errorf("%s: %v", what, err)
				}
				e.FS.SetFaults([]vfs.Fault{{Kind: vfs.OpCreate, FType: "table", Nth: 1, Count: -1}})
				k2, v2 := key(si+1), bytes.Repeat([]byte{'Q'}, wb/2+100)
				if err := e.DB.Put(k2, v2, nil); err != nil {
					// The Put itself ran into the failing flush (layout dependent). Its fate is
					// open (C08); settle it by reading it back once storage is healthy again.
					e.FS.Heal()
					if got, gerr := e.DB.Get(k2, nil); gerr == nil && bytes.Equal(got, v2) {
						e.M.Put(k2, v2)
					} else if gerr != nil && gerr != leveldb.ErrNotFound {
						return st, fmt.Errorf("%s: Get after a failed Put: %v", what, gerr)
					}
				} else {
					e.M.Put(k2, v2)
				}
				time.Sleep(200 * time.Microsecond)
			}
			// Close (possibly with a flush pending), then open read-only.
			files := len(e.FS.Files())
			journals := 0
			for _, fd := range e.FS.Files() {
				if fd.Type == storage.TypeJournal {
					journals++
				}
			}
			if err := e.Close(); err != nil && scene != "roopen-pending" {
				return st, err
			}
			e.FS.Heal()
			if !e.FS.IsLocked() {
				// ok: lock released by Close
			} else {
				return st, fmt.Errorf("%s: storage still locked after Close", what)
			}
			_ = files
			jbytes := e.FS.TotalBytes(storage.TypeJournal)
			if jbytes > 0 {
				st.roJournalOnly = true
			}
			journals = 0
			for _, fd := range e.FS.Files() {
				if fd.Type == storage.TypeJournal {
					journals++
				}
			}
			if journals > 1 {
				st.closePending = true
			}
			before := e.FS.LogLen()
			ro := *e.O
			ro.ReadOnly = true
			db, err := leveldb.Open(e.FS, &ro)
			if err != nil {
				return st, fmt.Errorf("%s: read-only Open failed: %v", what, err)
			}
			if err := readAll(e, db, what+" (read-only DB)"); err != nil {
				db.Close()
				return st, err
			}
			for i := 0; i < c.Reads; i++ {
				db.Get(key(i), nil)
				db.Get(append(key(i), 'z'), nil)
			}
			var werr error
			if werr = expectErr(what+": Put on a read-only DB", db.Put(key(0), []byte("x"), nil), leveldb.ErrReadOnly); werr == nil {
				werr = expectErr(what+": Delete on a read-only DB", db.Delete(key(1), nil), leveldb.ErrReadOnly)
			}
			if werr == nil {
				b := new(leveldb.Batch)
				b.Put(key(2), []byte("y"))
				werr = expectErr(what+": Write on a read-only DB", db.Write(b, nil), leveldb.ErrReadOnly)
			}
			if werr == nil {
				werr = expectErr(what+": CompactRange on a read-only DB", db.CompactRange(util.Range{}), leveldb.ErrReadOnly)
			}
			if werr == nil {
				_, terr := db.OpenTransaction()
				werr = expectErr(what+": OpenTransaction on a read-only DB", terr, leveldb.ErrReadOnly)
			}
			if werr != nil {
				db.Close()
				return st, werr
			}
			if err := readAll(e, db, what+" (read-only DB after rejected writes)"); err != nil {
				db.Close()
				return st, err
			}
			if err := db.Close(); err != nil {
				return st, fmt.Errorf("%s: Close of the read-only DB: %v", what, err)
			}
			if m := mutations(e.FS.LogFrom(before)); len(m) > 0 {
				return st, fmt.Errorf("%s: a DB opened read-only mutated storage: %d operations, first %+v", what, len(m), m[0])
			}
			if err := e.Open(); err != nil {
				return st, err
			}
			if err := e.Sweep(); err != nil {
				return st, err
			}

		case "released":
			snap, err := e.DB.GetSnapshot()
			if err != nil {
				return st, fmt.Errorf("%s: GetSnapshot: %v", what, err)
			}
			it := snap.NewIterator(nil, nil)
			it2 := e.DB.NewIterator(nil, nil)
			snap.Release()
			snap.Release()
			if _, err := snap.Get(key(0), nil); err != leveldb.ErrSnapshotReleased {
				return st, fmt.Errorf("%s: Get on a released snapshot returned %v", what, err)
			}
			if _, err := snap.Has(key(0), nil); err != leveldb.ErrSnapshotReleased {
				return st, fmt.Errorf("%s: Has on a released snapshot returned %v", what, err)
			}
			if ni := snap.NewIterator(nil, nil); ni.Next() || ni.Error() != leveldb.ErrSnapshotReleased {
				return st, fmt.Errorf("%s: NewIterator on a released snapshot: error %v", what, ni.Error())
			}
			// iterators created from the snapshot stay valid until released
			if _, err := dbm.FullScan(it); err != nil {
				return st, fmt.Errorf("%s: iterator of a released snapshot: %v", what, err)
			}
			it.Release()
			it.Release()
			it2.Release()
			for _, x := range []interface {
				Next() bool
				Error() error
			}{it, it2} {
				if x.Next() || x.Error() != leveldb.ErrIterReleased {
					return st, fmt.Errorf("%s: Next on a released iterator: error %v", what, x.Error())
				}
			}
			if it.First() || it.Last() || it.Seek(key(0)) || it.Prev() || it.Valid() {
				return st, fmt.Errorf("%s: movement on a released iterator succeeded", what)
			}

		case "race":
			// Get/Has/Put/GetSnapshot racing with Close: normal result or ErrClosed, nothing hangs or panics.
			var wg sync.WaitGroup
			errc := make(chan error, 16)
			db := e.DB
			stop := make(chan struct{})
			for g := 0; g < 4; g++ {
				wg.Add(1)
				go func(g int) {
					defer wg.Done()
					defer func() {
						if x := recover(); x != nil {
							errc <- fmt.Errorf("%s: goroutine racing with Close panicked: %v\n%s", what, x, debug.Stack())
						}
					}()
					for i := 0; ; i++ {
						select {
						case <-stop:
							return
						default:
						}
						k := key(i + g)
						switch (i + g) % 4 {
						case 0:
							v, err := db.Get(k, nil)
							// a call overlapping Close may fail (closed, or its table reader was
							// released under it); it must not return a wrong value, crash or hang
							_ = err
							if err == nil {
								if want, ok := e.M.Get(k); !ok || !bytes.Equal(want, v) {
									errc <- fmt.Errorf("%s: Get(%q) racing with Close returned %.30q, model %.30q", what, k, v, want)
									return
								}
							}
						case 1:
							if has, err := db.Has(k, nil); err == nil {
								if _, ok := e.M.Get(k); ok != has {
									errc <- fmt.Errorf("%s: Has(%q) racing with Close returned %v, model says %v", what, k, has, ok)
									return
								}
							}
						case 2:
							s, err := db.GetSnapshot()
							if err != nil && err != leveldb.ErrClosed {
								errc <- fmt.Errorf("%s: GetSnapshot racing with Close: %v", what, err)
								return
							}
							if s != nil {
								s.Release()
							}
						case 3:
							if _, err := db.GetProperty("leveldb.stats"); err != nil && err != leveldb.ErrClosed {
								errc <- fmt.Errorf("%s: GetProperty racing with Close: %v", what, err)
								return
							}
						}
					}
				}(g)
			}
			time.Sleep(time.Duration(200+si*50) * time.Microsecond)
			// stretch Close: closing the journal and manifest files takes a moment, so the readers
			// meet every intermediate state of the shutdown
			oldHook := e.FS.Hook
			e.FS.Hook = func(kind string, fd storage.FileDesc) {
				if kind == vfs.OpClose && fd.Type != storage.TypeTable {
					time.Sleep(250 * time.Microsecond)
				}
			}
			var cerr error
			if err := within(20*time.Second, what+": Close", func() { cerr = e.Close() }); err != nil {
				e.FS.Hook = oldHook
				return st, err
			}
			e.FS.Hook = oldHook
			close(stop)
			if err := within(20*time.Second, what+": calls racing with Close", wg.Wait); err != nil {
				return st, err
			}
			select {
			case err := <-errc:
				return st, err
			default:
			}
			if cerr != nil {
				return st, cerr
			}
			if err := e.Open(); err != nil {
				return st, err
			}
			if err := e.Sweep(); err != nil {
				return st, err
			}

		case "setro-fault":
			// SetReadOnly while a buffer flush is failing: writes must be rejected with the
			// read-only error (not hang), and Close must return
			if err := e.DB.VerifWaitIdle(); err != nil {
				return st, fmt.Errorf("%s: %v", what, err)
			}
			wb := e.O.GetWriteBuffer()
			k1, v1 := key(si), bytes.Repeat([]byte{'R'}, wb/2)
			if err := e.DB.Put(k1, v1, nil); err != nil {
				return st, fmt.Errorf("%s: Put: %v", what, err)
			}
			e.M.Put(k1, v1)
			if err := e.DB.VerifWaitIdle(); err != nil {
				return st, fmt.Errorf("%s: %v", what, err)
			}
			e.FS.SetFaults([]vfs.Fault{{Kind: vfs.OpCreate, FType: "table", Nth: 1, Count: -1}})
			k2, v2 := key(si+1), bytes.Repeat([]byte{'S'}, wb/2+100)
			if err := e.DB.Put(k2, v2, nil); err == nil {
				e.M.Put(k2, v2)
			} else {
				return st, nil // layout dependent: the Put itself met the failing flush; scene not applicable
			}
			time.Sleep(300 * time.Microsecond) // let the flush fail at least once
			db := e.DB
			var roErr, putErr error
			if err := within(20*time.Second, what+": SetReadOnly", func() { roErr = db.SetReadOnly() }); err != nil {
				return st, err
			}
			e.FS.Heal()
			if roErr == nil {
				if err := within(20*time.Second, what+": Put after SetReadOnly (issued while a flush was failing)", func() { putErr = db.Put(key(0), []byte("x"), nil) }); err != nil {
					return st, err
				}
				if putErr != leveldb.ErrReadOnly {
					return st, fmt.Errorf("%s: Put after SetReadOnly returned %v, expected ErrReadOnly", what, putErr)
				}
			}
			if err := readAll(e, db, what+" (read-only after a failing flush)"); err != nil {
				return st, err
			}
			var cerr error
			if err := within(20*time.Second, what+": Close", func() { cerr = e.Close() }); err != nil {
				return st, err
			}
			_ = cerr
			if err := e.Open(); err != nil {
				return st, err
			}
			if err := e.Sweep(); err != nil {
				return st, err
			}

		case "setro":
			db := e.DB
			if err := db.SetReadOnly(); err != nil {
				return st, fmt.Errorf("%s: SetReadOnly: %v", what, err)
			}
			if err := db.VerifWaitIdleRO(); err != nil {
				return st, fmt.Errorf("%s: draining background work: %v", what, err)
			}
			before := e.FS.LogLen()
			if err := expectErr(what+": Put after SetReadOnly", db.Put(key(0), []byte("x"), nil), leveldb.ErrReadOnly); err != nil {
				return st, err
			}
			b := new(leveldb.Batch)
			b.Delete(key(1))
			if err := expectErr(what+": Write after SetReadOnly", db.Write(b, nil), leveldb.ErrReadOnly); err != nil {
				return st, err
			}
			if err := expectErr(what+": CompactRange after SetReadOnly", db.CompactRange(util.Range{}), leveldb.ErrReadOnly); err != nil {
				return st, err
			}
			if err := readAll(e, db, what+" (after SetReadOnly)"); err != nil {
				return st, err
			}
			for i := 0; i < c.Reads; i++ {
				db.Get(key(i), nil)
				db.Get(append(key(i), 'z'), nil)
				db.Has(append([]byte{'0'}, key(i)...), nil)
			}
			if err := db.VerifWaitIdleRO(); err != nil {
				return st, fmt.Errorf("%s: draining background work: %v", what, err)
			}
			if err := readAll(e, db, what+" (after SetReadOnly and reads)"); err != nil {
				return st, err
			}
			if m := mutations(e.FS.LogFrom(before)); len(m) > 0 {
				return st, fmt.Errorf("%s: after SetReadOnly and once background work had drained, reads caused %d mutating storage operations, first %+v", what, len(m), m[0])
			}
			// the session stays read-only until reopened
			if err := e.Close(); err != nil {
				return st, err
			}
			if err := e.Open(); err != nil {
				return st, err
			}
			if err := e.Sweep(); err != nil {
				return st, err
			}

		case "closed":
			db := e.DB
			snap, _ := db.GetSnapshot()
			tr, _ := db.OpenTransaction()
			if tr != nil {
				tr.Put(key(0), []byte("in-transaction"), nil)
			}
			if err := e.Close(); err != nil {
				return st, err
			}
			before := e.FS.LogLen()
			n := 0
			chk := func(name string, err error) error {
				n++
				if err != leveldb.ErrClosed {
					return fmt.Errorf("%s: %s after Close returned %v, expected ErrClosed", what, name, err)
				}
				return nil
			}
			var cerr error
			werr := within(20*time.Second, what+": methods after Close", func() {
				_, err := db.Get(key(0), nil)
				if cerr = chk("Get", err); cerr != nil {
					return
				}
				_, err = db.Has(key(0), nil)
				if cerr = chk("Has", err); cerr != nil {
					return
				}
				if cerr = chk("Put", db.Put(key(0), []byte("v"), nil)); cerr != nil {
					return
				}
				if cerr = chk("Delete", db.Delete(key(0), nil)); cerr != nil {
					return
				}
				b := new(leveldb.Batch)
				b.Put(key(1), []byte("v"))
				if cerr = chk("Write", db.Write(b, &opt.WriteOptions{Sync: true})); cerr != nil {
					return
				}
				it := db.NewIterator(nil, nil)
				if it.Next() {
					cerr = fmt.Errorf("%s: iterator created after Close yields data", what)
					return
				}
				if cerr = chk("NewIterator().Error", it.Error()); cerr != nil {
					return
				}
				it.Release()
				_, err = db.GetSnapshot()
				if cerr = chk("GetSnapshot", err); cerr != nil {
					return
				}
				_, err = db.GetProperty("leveldb.stats")
				if cerr = chk("GetProperty", err); cerr != nil {
					return
				}
				var s leveldb.DBStats
				if cerr = chk("Stats", db.Stats(&s)); cerr != nil {
					return
				}
				_, err = db.SizeOf([]util.Range{{}})
				if cerr = chk("SizeOf", err); cerr != nil {
					return
				}
				if cerr = chk("CompactRange", db.CompactRange(util.Range{})); cerr != nil {
					return
				}
				if cerr = chk("SetReadOnly", db.SetReadOnly()); cerr != nil {
					return
				}
				_, err = db.OpenTransaction()
				if cerr = chk("OpenTransaction", err); cerr != nil {
					return
				}
				if cerr = chk("second Close", db.Close()); cerr != nil {
					return
				}
				if snap != nil {
					_, err = snap.Get(key(0), nil)
					if err != leveldb.ErrClosed && err != leveldb.ErrSnapshotReleased {
						cerr = fmt.Errorf("%s: Snapshot.Get after Close returned %v", what, err)
						return
					}
					n++
					si := snap.NewIterator(nil, nil)
					if si.Next() || (si.Error() != leveldb.ErrClosed && si.Error() != leveldb.ErrSnapshotReleased) {
						cerr = fmt.Errorf("%s: Snapshot.NewIterator after Close: %v", what, si.Error())
						return
					}
					si.Release()
					snap.Release()
					n++
				}
				if tr != nil {
					if _, err := tr.Get(key(0), nil); err == nil {
						cerr = fmt.Errorf("%s: Transaction.Get after Close succeeded", what)
						return
					}
					if err := tr.Put(key(0), []byte("v"), nil); err == nil {
						cerr = fmt.Errorf("%s: Transaction.Put after Close succeeded", what)
						return
					}
					if err := tr.Commit(); err == nil {
						cerr = fmt.Errorf("%s: Transaction.Commit after Close succeeded", what)
						return
					}
					tr.Discard()
					n += 4
				}
			})
			if werr != nil {
				return st, werr
			}
			if cerr != nil {
				return st, cerr
			}
			if n > st.methodsAfterClose {
				st.methodsAfterClose = n
			}
			if m := mutations(e.FS.LogFrom(before)); len(m) > 0 {
				return st, fmt.Errorf("%s: methods called after Close touched storage: %+v", what, m[0])
			}
			if e.FS.IsLocked() {
				return st, fmt.Errorf("%s: storage lock still held after Close", what)
			}
			if err := e.Open(); err != nil {
				return st, err
			}
			if err := e.Sweep(); err != nil {
				return st, err
			}
		}
	}
	return st, e.Finish()
}

func drawLCase(t *rapid.T) *LCase {
	p := &dbm.Profile{Prop: "C18", MinOps: 5, MaxOps: 120, DetPercent: 40,
		W: map[string]int{"put": 34, "del": 8, "batch": 8, "bigbatch": 1, "get": 4, "compact": 2, "reopen": 1, "idle": 2, "snap": 1, "tropen": 1, "trcommit": 1}}
	c := &LCase{Base: dbm.Draw(t, p)}
	c.Scenes = rapid.SliceOfN(rapid.SampledFrom([]string{"roopen", "roopen", "closed", "closed", "setro", "open2", "released", "race", "roopen-pending", "setro-fault"}), 1, 5).Draw(t, "scenes")
	c.Reads = rapid.SampledFrom([]int{0, 50, 400, 3000}).Draw(t, "reads")
	return c
}

// C18: ownership and lifecycle.
func TestC18(t *testing.T) {
	if replayFile() != "" {
		c := &LCase{}
		if err := loadReplay(c); err != nil {
			t.Fatal(err)
		}
		for i := 0; i < envInt("VERIF_REPLAY_RUNS", 10); i++ {
			if _, err := runLifecycle(c); err != nil {
				t.Fatalf("replay failed: %v", err)
			}
		}
		return
	}
	rec := evid.New("C18")
	defer rec.Flush()
	rapid.Check(t, func(rt *rapid.T) {
		c := drawLCase(rt)
		saveJSON("VERIF_INFLIGHT", c)
		st, err := runLifecycle(c)
		if err != nil {
			reportFail("C18", c, err)
			rt.Fatalf("C18 violated: %v", err)
		}
		var cl []string
		for s := range st.scenes {
			cl = append(cl, "scene-"+s)
		}
		if st.roJournalOnly {
			cl = append(cl, "read-only-open-with-data-in-journal")
		}
		if st.closePending {
			cl = append(cl, "close-with-flush-pending")
		}
		if st.methodsAfterClose >= 8 {
			cl = append(cl, "methods-after-close>=8")
		}
		nt := st.roJournalOnly || st.methodsAfterClose >= 8 || st.scenes["setro"] > 0
		rec.Case(evid.FP(c), nt, cl...)
		if nt && rec.WantSample() {
			rec.Sample(map[string]any{"scenes": c.Scenes, "reads": c.Reads, "history_ops": len(c.Base.Ops), "opts": c.Base.Opts})
		}
	})
}
