package checks

import (
	"bytes"
	"fmt"
	"sync"
	"sync/atomic"
	"testing"

	"github.com/syndtr/goleveldb/leveldb/iterator"
	"github.com/syndtr/goleveldb/leveldb/memdb"
	"github.com/syndtr/goleveldb/leveldb/util"
	"pgregory.net/rapid"

	"verif/dbm"
	"verif/evid"
	"verif/gen"
	"verif/model"
)

// MCase is a memdb case.
type MCase struct {
	Cmp  string    `json:"cmp"`
	Cap  int       `json:"cap"`
	Keys []gen.Hex `json:"keys"`
	Ops  []MOp     `json:"ops"`
	// concurrent part (optional): one writer putting WKeys unique keys, Readers readers
	Readers int `json:"readers,omitempty"`
	WPuts   int `json:"wputs,omitempty"`
}

// MOp is one memdb operation: put del get find contains walk reset
type MOp struct {
	T    string     `json:"t"`
	K    int        `json:"k,omitempty"`
	VLen int        `json:"vlen,omitempty"`
	S    *int       `json:"s,omitempty"`
	L    *int       `json:"l,omitempty"`
	Walk []dbm.Move `json:"walk,omitempty"`
	Slot int        `json:"slot,omitempty"` // hopen hmove hrel: which long-lived iterator
}

// heldIt is a long-lived iterator with the checker's idea of where it stands.
type heldIt struct {
	it    iterator.Iterator
	s, l  []byte
	pos   int    // -1: invalid, next move forward starts at the first pair; 0: on key; +1: invalid after the end
	key   []byte // pos == 0
	stale bool   // the pair it stands on was deleted after it was positioned: its successor link is history
}

type mStats struct {
	heldMovesAfterMutation                                   int
	overwriteDiffLen, delAbsent, reset, rangedWalk, reversal bool
	overlapPuts                                              int64
}

func runMem(c *MCase) (st mStats, err error) {
	defer func() {
		if x := recover(); x != nil {
			err = fmt.Errorf("panic: %v", x)
		}
	}()
	cmp := gen.Comparer(c.Cmp)
	db := memdb.New(cmp, c.Cap)
	m := model.NewMap()
	key := func(i int) []byte {
		if len(c.Keys) == 0 {
			return []byte("k")
		}
		return append([]byte{}, c.Keys[i%len(c.Keys)]...)
	}
	type held struct{ live, copy []byte }
	var holds []held
	hold := func(b []byte) {
		if len(holds) < 64 {
			holds = append(holds, held{b, append([]byte{}, b...)})
		}
	}
	check := func(i int) error {
		// slices handed out earlier keep their contents (the buffer is append-only until Reset)
		for _, h := range holds {
			if !bytes.Equal(h.live, h.copy) {
				return fmt.Errorf("op #%d: a slice returned earlier by Get/Find changed from %.30q to %.30q", i, h.copy, h.live)
			}
		}
		if db.Len() != m.Len() {
			return fmt.Errorf("op #%d: Len()=%d, model has %d entries", i, db.Len(), m.Len())
		}
		sz := 0
		for k, v := range m.Raw() {
			sz += len(k) + len(v)
		}
		if db.Size() != sz {
			return fmt.Errorf("op #%d: Size()=%d, model keys+values = %d", i, db.Size(), sz)
		}
		return nil
	}
	helds := map[int]*heldIt{}
	mutations := 0
	everSeq := map[string]map[string]bool{} // every pair ever stored by the sequential part
	releaseHelds := func() {
		for s, h := range helds {
			h.it.Release()
			delete(helds, s)
		}
	}
	defer releaseHelds()
	// heldMove applies one movement to a long-lived iterator. The table may have changed since
	// the iterator was positioned; the memdb documents that as allowed. What the move must yield
	// follows from the current contents: First/Last/Seek search afresh, Prev searches from the
	// key the iterator stands on, Next follows the successor link of the pair it stands on -
	// which is the current successor unless that pair was deleted meanwhile (then the checker
	// re-seeks instead of stepping).
	heldMove := func(i int, h *heldIt, mv dbm.Move) error {
		l := m.Sorted(cmp.Compare, h.s, h.l)
		cur := model.NewCursor(l, cmp.Compare)
		switch h.pos {
		case -1:
			cur.P = -1
		case 1:
			cur.P = len(l)
		default:
			cur.Seek(h.key) // on the key, or (key deleted) on the insertion point
		}
		sk := key(mv.K)
		what := mv.M
		if what == "next" && h.pos == 0 && h.stale {
			if len(h.key)%2 == 0 {
				what, sk = "seek", append([]byte{}, h.key...)
			} else {
				// step from a pair that has been deleted: its successor link is history, so the
				// landing point is not determined - but it must lie after the key the iterator
				// stood on, inside the range, and be a pair that was stored at some time
				if h.it.Next() {
					k, v := h.it.Key(), h.it.Value()
					if cmp.Compare(k, h.key) <= 0 {
						return fmt.Errorf("op #%d long-lived iterator: Next from the deleted key %q went to %q, which does not sort after it", i, h.key, k)
					}
					if (h.s != nil && cmp.Compare(k, h.s) < 0) || (h.l != nil && cmp.Compare(k, h.l) >= 0) {
						return fmt.Errorf("op #%d long-lived iterator [%q,%q): Next from the deleted key %q left the range: %q", i, h.s, h.l, h.key, k)
					}
					if !everSeq[string(k)][string(v)] {
						return fmt.Errorf("op #%d long-lived iterator: Next from the deleted key %q yields %q -> %.30q, a pair that was never stored", i, h.key, k, v)
					}
					h.key = append([]byte{}, k...) // still not known to stand on a live node
				} else {
					h.pos, h.key, h.stale = 1, nil, false
				}
				return nil
			}
		}
		var got, want bool
		switch what {
		case "first":
			got, want = h.it.First(), cur.First()
		case "last":
			got, want = h.it.Last(), cur.Last()
		case "seek":
			got, want = h.it.Seek(sk), cur.Seek(sk)
			what = fmt.Sprintf("seek(%q)", sk)
		case "next":
			got, want = h.it.Next(), cur.Next()
		case "prev":
			got, want = h.it.Prev(), cur.Prev()
		default:
			return nil
		}
		where := fmt.Sprintf("op #%d long-lived iterator [%q,%q) %s from %s", i, h.s, h.l, what, map[int]string{-1: "before the start", 1: "after the end", 0: fmt.Sprintf("%q", h.key)}[h.pos])
		if got != want || h.it.Valid() != want {
			return fmt.Errorf("%s: returned %v (Valid %v, key %q), the current contents say %v", where, got, h.it.Valid(), h.it.Key(), want)
		}
		if want {
			if !bytes.Equal(h.it.Key(), cur.Cur().K) || !bytes.Equal(h.it.Value(), cur.Cur().V) {
				return fmt.Errorf("%s: yields %q -> %.30q, the current contents say %q -> %.30q", where, h.it.Key(), h.it.Value(), cur.Cur().K, cur.Cur().V)
			}
			h.pos, h.key = 0, append([]byte{}, cur.Cur().K...)
		} else if cur.P < 0 {
			h.pos, h.key = -1, nil
		} else {
			h.pos, h.key = 1, nil
		}
		h.stale = false
		return nil
	}
	for i, op := range c.Ops {
		k := key(op.K)
		switch op.T {
		case "hopen":
			if h := helds[op.Slot]; h != nil {
				h.it.Release()
			}
			var s, l []byte
			if op.S != nil {
				s = key(*op.S)
			}
			if op.L != nil {
				l = key(*op.L)
			}
			if s != nil && l != nil && cmp.Compare(s, l) > 0 {
				s, l = l, s
			}
			var slice *util.Range
			if s != nil || l != nil {
				slice = &util.Range{Start: s, Limit: l}
			}
			helds[op.Slot] = &heldIt{it: db.NewIterator(slice), s: s, l: l, pos: -1}
		case "hmove":
			if helds[op.Slot] == nil {
				helds[op.Slot] = &heldIt{it: db.NewIterator(nil), pos: -1}
			}
			if h := helds[op.Slot]; h != nil {
				for _, mv := range op.Walk {
					if err := heldMove(i, h, mv); err != nil {
						return st, err
					}
					if mutations > 0 {
						st.heldMovesAfterMutation++
					}
				}
			}
		case "hrel":
			if h := helds[op.Slot]; h != nil {
				h.it.Release()
				delete(helds, op.Slot)
			}
		case "put":
			mutations++
			v := gen.VSpec{Len: op.VLen}.Bytes(fmt.Sprintf("%d", i))
			if old, ok := m.Get(k); ok && len(old) != len(v) {
				st.overwriteDiffLen = true
			}
			ka := append([]byte{}, k...)
			if err := db.Put(ka, v); err != nil {
				return st, fmt.Errorf("op #%d Put: %v", i, err)
			}
			for j := range ka {
				ka[j] = 0xAA // the memdb must have copied the key
			}
			m.Put(k, v)
			if everSeq[string(k)] == nil {
				everSeq[string(k)] = map[string]bool{}
			}
			everSeq[string(k)][string(v)] = true
		case "del":
			_, ok := m.Get(k)
			err := db.Delete(k)
			if ok && err != nil {
				return st, fmt.Errorf("op #%d Delete(%q): %v, key is present", i, k, err)
			}
			if !ok {
				st.delAbsent = true
				if err != memdb.ErrNotFound {
					return st, fmt.Errorf("op #%d Delete(%q) of an absent key returned %v", i, k, err)
				}
			}
			m.Delete(k)
			mutations++
			for _, h := range helds {
				if h.pos == 0 && bytes.Equal(h.key, k) {
					h.stale = true
				}
			}
		case "get":
			want, ok := m.Get(k)
			got, err := db.Get(k)
			if ok && (err != nil || !bytes.Equal(got, want)) {
				return st, fmt.Errorf("op #%d Get(%q) = %.30q, %v; model has %.30q", i, k, got, err, want)
			}
			if !ok && err != memdb.ErrNotFound {
				return st, fmt.Errorf("op #%d Get(%q) = %.30q, %v; model says absent", i, k, got, err)
			}
			if ok {
				hold(got)
			}
			if db.Contains(k) != ok {
				return st, fmt.Errorf("op #%d Contains(%q) = %v; model says %v", i, k, !ok, ok)
			}
		case "find":
			l := m.Sorted(cmp.Compare, k, nil)
			rk, rv, err := db.Find(k)
			if len(l) == 0 {
				if err != memdb.ErrNotFound {
					return st, fmt.Errorf("op #%d Find(%q) = %q, %v; nothing >= key", i, k, rk, err)
				}
			} else if err != nil || !bytes.Equal(rk, l[0].K) || !bytes.Equal(rv, l[0].V) {
				return st, fmt.Errorf("op #%d Find(%q) = %q, %v; first pair >= key is %q", i, k, rk, err, l[0].K)
			} else {
				hold(rk)
				hold(rv)
			}
		case "reset":
			releaseHelds() // Reset invalidates iterators
			db.Reset()
			holds = nil
			m = model.NewMap()
			st.reset = true
		case "walk":
			var s, l []byte
			if op.S != nil {
				s = key(*op.S)
			}
			if op.L != nil {
				l = key(*op.L)
			}
			if s != nil && l != nil && cmp.Compare(s, l) > 0 {
				s, l = l, s
			}
			var slice *util.Range
			if s != nil || l != nil {
				slice = &util.Range{Start: s, Limit: l}
				st.rangedWalk = true
			}
			it := db.NewIterator(slice)
			ts := &tStats{}
			werr := walkIter(it, model.NewCursor(m.Sorted(cmp.Compare, s, l), cmp.Compare), op.Walk, key, ts)
			it.Release()
			if ts.reversal {
				st.reversal = true
			}
			if werr != nil {
				return st, fmt.Errorf("op #%d walk [%q,%q): %v", i, s, l, werr)
			}
		}
		if err := check(i); err != nil {
			return st, err
		}
	}
	if c.Readers > 0 {
		n, err := runMemConcurrent(c, db, m)
		st.overlapPuts = n
		if err != nil {
			return st, err
		}
	}
	return st, nil
}

// runMemConcurrent: one writer puts WPuts fresh unique keys (plus overwrites of
// its own keys) while readers walk and look up. Readers must never see keys
// out of order, never a pair that was not stored, and must not skip a key that
// was present before their walk started.
func runMemConcurrent(c *MCase, db *memdb.DB, m *model.Map) (int64, error) {
	cmp := gen.Comparer(c.Cmp)
	before := m.Sorted(cmp.Compare, nil, nil)
	var written sync.Map // key -> latest value index; values are "<key>#<n>"
	var puts int64
	var firstErr atomic.Value
	fail := func(format string, a ...any) {
		firstErr.CompareAndSwap(nil, fmt.Errorf(format, a...))
	}
	stop := make(chan struct{})
	var wg sync.WaitGroup
	// every value the writer ever stores is registered before the Put, so a reader can demand
	// exact membership: a pair assembled from the offset of one version and the length of
	// another is not a stored pair
	var everMu sync.Mutex
	ever := map[string]map[string]bool{}
	valOK := func(k, v []byte) bool {
		if want, ok := m.Get(k); ok && bytes.Equal(want, v) {
			return true
		}
		everMu.Lock()
		defer everMu.Unlock()
		return ever[string(k)][string(v)]
	}
	for r := 0; r < c.Readers; r++ {
		wg.Add(1)
		go func(r int) {
			defer wg.Done()
			defer func() {
				if x := recover(); x != nil {
					fail("reader %d panicked: %v", r, x)
				}
			}()
			for round := 0; ; round++ {
				select {
				case <-stop:
					return
				default:
				}
				startPuts := atomic.LoadInt64(&puts)
				it := db.NewIterator(nil)
				var prev, prevLiveV, prevCopyV []byte
				idx := 0
				fwd := (r+round)%3 != 0
				if !fwd {
					idx = len(before) - 1
				}
				ok := false
				if fwd {
					ok = it.First()
				} else {
					ok = it.Last()
				}
				for ; ok; ok = func() bool {
					if fwd {
						return it.Next()
					}
					return it.Prev()
				}() {
					k, v := it.Key(), it.Value()
					if prevLiveV != nil && !bytes.Equal(prevLiveV, prevCopyV) {
						fail("reader %d: value slice yielded for %q changed after the iterator moved on: %.40q -> %.40q", r, prev, prevCopyV, prevLiveV)
					}
					prevLiveV, prevCopyV = v, append(prevCopyV[:0], v...)
					if prev != nil {
						d := cmp.Compare(prev, k)
						if (fwd && d >= 0) || (!fwd && d <= 0) {
							fail("reader %d: keys out of order: %q then %q (forward=%v)", r, prev, k, fwd)
						}
					}
					if !valOK(k, v) {
						fail("reader %d: pair %q=%.40q was never stored", r, k, v)
					}
					// keys present before the concurrent phase must not be skipped
					if fwd {
						for idx < len(before) && cmp.Compare(before[idx].K, k) < 0 {
							fail("reader %d: forward walk skipped key %q that was present before the walk started", r, before[idx].K)
							idx++
						}
						if idx < len(before) && cmp.Compare(before[idx].K, k) == 0 {
							idx++
						}
					} else {
						for idx >= 0 && cmp.Compare(before[idx].K, k) > 0 {
							fail("reader %d: backward walk skipped key %q that was present before the walk started", r, before[idx].K)
							idx--
						}
						if idx >= 0 && cmp.Compare(before[idx].K, k) == 0 {
							idx--
						}
					}
					prev = append(prev[:0], k...)
				}
				if fwd && idx < len(before) {
					fail("reader %d: forward walk ended before key %q that was present before the walk started", r, before[idx].K)
				}
				if !fwd && idx >= 0 {
					fail("reader %d: backward walk ended before key %q that was present before the walk started", r, before[idx].K)
				}
				it.Release()
				// point lookups of keys the writer has certainly finished writing
				written.Range(func(kk, _ any) bool {
					k := []byte(kk.(string))
					v, err := db.Get(k)
					if err != nil || !valOK(k, v) {
						fail("reader %d: Get(%q) = %.40q, %v for a key whose Put had returned", r, k, v, err)
					}
					return round%4 == 0
				})
				_ = startPuts
			}
		}(r)
	}
	// the writer
	for i := 0; i < c.WPuts; i++ {
		var k []byte
		if i%2 == 1 && i > 0 {
			k = []byte(fmt.Sprintf("w%05d", (i*7)%minInt(i, 24))) // overwrite an own earlier key (a small hot set)
		} else {
			k = []byte(fmt.Sprintf("w%05d", i))
		}
		if len(c.Keys) > 0 && i%3 == 0 {
			k = append(append([]byte{}, c.Keys[i%len(c.Keys)]...), k...) // spread over the hostile key space
		}
		v := append(append([]byte{}, k...), []byte(fmt.Sprintf("#%d", i))...)
		if i%2 == 0 {
			v = append(v, bytes.Repeat([]byte{'.'}, (i*13)%400)...) // varying lengths: overwrites may be shorter or longer
		}
		everMu.Lock()
		if ever[string(k)] == nil {
			ever[string(k)] = map[string]bool{}
		}
		ever[string(k)][string(v)] = true
		everMu.Unlock()
		if err := db.Put(k, v); err != nil {
			fail("writer: Put: %v", err)
			break
		}
		written.Store(string(k), i)
		atomic.AddInt64(&puts, 1)
	}
	close(stop)
	wg.Wait()
	if e := firstErr.Load(); e != nil {
		return puts, e.(error)
	}
	return puts, nil
}

func drawMCase(t *rapid.T, conc bool) *MCase {
	c := &MCase{}
	c.Cmp = rapid.SampledFrom([]string{"bytewise", "bytewise", "inv", "xor55", "lenfirst", "revstr"}).Draw(t, "cmp")
	c.Cap = rapid.SampledFrom([]int{0, 16, 1024, 65536}).Draw(t, "cap")
	c.Keys = gen.DrawKeyPool(t, 2, 24)
	nk := len(c.Keys)
	og := rapid.Custom(func(t *rapid.T) MOp {
		op := MOp{T: rapid.SampledFrom([]string{"put", "put", "put", "put", "del", "del", "get", "find", "find", "walk", "walk", "reset", "hopen", "hmove", "hmove", "hmove", "hmove", "hrel"}).Draw(t, "op")}
		if op.T == "reset" && rapid.IntRange(0, 3).Draw(t, "rr") != 0 {
			op.T = "put"
		}
		op.K = rapid.IntRange(0, nk-1).Draw(t, "k")
		switch op.T {
		case "put":
			op.VLen = rapid.SampledFrom([]int{0, 1, 5, 40, 300, 3000}).Draw(t, "vl")
		case "hopen", "hmove", "hrel":
			op.Slot = rapid.IntRange(0, 2).Draw(t, "slot")
			if op.T == "hopen" {
				if rapid.IntRange(0, 9).Draw(t, "rs") >= 6 {
					v := rapid.IntRange(0, nk-1).Draw(t, "rsk")
					op.S = &v
				}
				if rapid.IntRange(0, 9).Draw(t, "rl") >= 6 {
					v := rapid.IntRange(0, nk-1).Draw(t, "rlk")
					op.L = &v
				}
			}
			if op.T == "hmove" {
				op.Walk = dbm.DrawWalk(t, nk, 4)
				// re-seeking the key just written or deleted is the interesting move: bias towards it
				if rapid.Bool().Draw(t, "samekey") && len(op.Walk) > 0 {
					op.Walk[0] = dbm.Move{M: "seek", K: op.K}
				}
			}
		case "walk":
			if rapid.IntRange(0, 9).Draw(t, "rs") >= 4 {
				v := rapid.IntRange(0, nk-1).Draw(t, "rsk")
				op.S = &v
			}
			if rapid.IntRange(0, 9).Draw(t, "rl") >= 4 {
				v := rapid.IntRange(0, nk-1).Draw(t, "rlk")
				op.L = &v
			}
			op.Walk = dbm.DrawWalk(t, nk, 30)
		}
		return op
	})
	c.Ops = rapid.SliceOfN(og, rapid.SampledFrom([]int{1, 1, 10, 30, 60}).Draw(t, "minops"), 120).Draw(t, "ops")
	if conc {
		c.Readers = rapid.IntRange(2, 8).Draw(t, "readers")
		c.WPuts = rapid.SampledFrom([]int{200, 1000, 3000}).Draw(t, "wputs")
	}
	return c
}

// C14: the in-memory buffer is an ordered map, safe under concurrent readers.
func TestC14(t *testing.T) {
	if replayFile() != "" {
		c := &MCase{}
		if err := loadReplay(c); err != nil {
			t.Fatal(err)
		}
		for i := 0; i < envInt("VERIF_REPLAY_RUNS", 20); i++ {
			if _, err := runMem(c); err != nil {
				t.Fatalf("replay failed: %v", err)
			}
		}
		return
	}
	rec := evid.New("C14")
	defer rec.Flush()
	rapid.Check(t, func(rt *rapid.T) {
		conc := rapid.SampledFrom([]int{0, 1, 2, 3, 4, 5, 6, 7}).Draw(rt, "conc") == 7 // about every 8th case has a concurrent phase
		c := drawMCase(rt, conc)
		st, err := runMem(c)
		if err != nil {
			reportFail("C14", c, err)
			rt.Fatalf("C14 violated: %v", err)
		}
		var cl []string
		add := func(ok bool, s string) {
			if ok {
				cl = append(cl, s)
			}
		}
		add(st.overwriteDiffLen, "overwrite-different-length")
		add(st.delAbsent, "delete-absent")
		add(st.reset, "reset-and-reuse")
		add(st.rangedWalk, "ranged-walk")
		add(st.reversal, "reversal")
		add(st.heldMovesAfterMutation > 0, "long-lived-iterator-moved-after-mutation")
		add(c.Readers > 0, "concurrent-phase")
		add(st.overlapPuts >= 100, "readers-overlapped>=100-puts")
		nt := (st.overwriteDiffLen && st.delAbsent && st.rangedWalk) || st.overlapPuts >= 100
		rec.Case(evid.FP(c), nt, cl...)
		if nt && rec.WantSample() {
			rec.Sample(c)
		}
	})
}
