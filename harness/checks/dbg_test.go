package checks

import (
	"fmt"
	"os"
	"testing"
)

func TestDbgFaultLog(t *testing.T) {
	if replayFile() == "" {
		t.Skip()
	}
	c := &ECase{}
	if err := loadReplay(c); err != nil {
		t.Fatal(err)
	}
	dbgFS = nil
	_, err := runFaultsOpts(c, false, true)
	fmt.Println("ERR:", err)
	if dbgFS != nil {
		for i, l := range dbgFS.LogFrom(0) {
			fmt.Printf("%3d %s %s-%d n=%d\n", i, l.Kind, l.FType, l.Num, l.N)
		}
		fmt.Println("fired:", dbgFS.Fired())
		fmt.Println("files:", dbgFS.Files())
	}
	_ = os.Stdout
}
