package checks

import (
	"fmt"
	"os"
	"testing"

	"github.com/syndtr/goleveldb/leveldb/storage"

	"verif/dbm"
	"verif/vfs"
)

func TestDbgFaultLog(t *testing.T) {
	if replayFile() == "" {
		t.Skip()
	}
	c := &ECase{}
	if err := loadReplay(c); err != nil {
		t.Fatal(err)
	}
	dbgFS = nil
	vfs.TextLog = os.Getenv("VERIF_TEXTLOG") != ""
	var err error
	for r := 0; r < envInt("VERIF_REPLAY_RUNS", 1); r++ {
		if _, err = runFaultsOpts(c, os.Getenv("VERIF_DBG_STRICT") != "", true); err != nil {
			break
		}
	}
	fmt.Println("ERR:", err)
	if dbgFS != nil && vfs.TextLog {
		for _, l := range dbgFS.Text() {
			fmt.Println(l)
		}
		fmt.Println("files:", dbgFS.Files())
		return
	}
	if dbgFS != nil {
		for i, l := range dbgFS.LogFrom(0) {
			fmt.Printf("%3d %s %s-%d n=%d\n", i, l.Kind, l.FType, l.Num, l.N)
		}
		fmt.Println("fired:", dbgFS.Fired())
		fmt.Println("files:", dbgFS.Files())
	}
	_ = os.Stdout
}

// TestDbgDBM replays a dbm case until it fails and prints the DB's own log
// interleaved with the storage operations (debugging aid, not a check).
func TestDbgDBM(t *testing.T) {
	if replayFile() == "" {
		t.Skip()
	}
	c := &dbm.Case{}
	if err := loadReplay(c); err != nil {
		t.Fatal(err)
	}
	vfs.TextLog = os.Getenv("VERIF_TEXTLOG") != ""
	for r := 0; r < envInt("VERIF_REPLAY_RUNS", 200); r++ {
		_, err := dbm.Run(c)
		if err != nil {
			e := dbm.LastEnv
			fmt.Println("RUN", r, "ERR:", err)
			txt := e.FS.Text()
			if n := envInt("VERIF_DBG_LINES", 400); len(txt) > n {
				txt = txt[len(txt)-n:]
			}
			for _, l := range txt {
				fmt.Println(l)
			}
			fmt.Println("files:", e.FS.Files())
			for _, fd := range e.FS.Files() {
				if fd.Type != storage.TypeTable {
					continue
				}
				fmt.Printf("table %v:\n", fd)
				for _, l := range e.DumpTable(fd.Num) {
					fmt.Println("    " + l)
				}
			}
			return
		}
	}
	fmt.Println("no failure")
}
