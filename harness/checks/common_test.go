package checks

import (
	"encoding/json"
	"fmt"
	"os"
	"runtime"
	"strconv"
	"strings"
	"testing"

	"github.com/syndtr/goleveldb/leveldb/util"
	"pgregory.net/rapid"

	"verif/dbm"
	"verif/evid"
	"verif/gen"
)

func envInt(name string, def int) int {
	if s := os.Getenv(name); s != "" {
		if v, err := strconv.Atoi(s); err == nil {
			return v
		}
	}
	return def
}

func tier() string {
	if os.Getenv("VERIF_TIER") == "thorough" {
		return "thorough"
	}
	return "quick"
}

// saveJSON writes v to the file named by the environment variable (if set).
func saveJSON(envName string, v any) {
	path := os.Getenv(envName)
	if path == "" {
		return
	}
	b, err := json.MarshalIndent(v, "", " ")
	if err != nil {
		return
	}
	tmp := path + ".tmp"
	if os.WriteFile(tmp, b, 0o644) == nil {
		os.Rename(tmp, path)
	}
}

type failInfo struct {
	Property string `json:"property"`
	Message  string `json:"message"`
	Case     any    `json:"case"`
}

// reportFail records the failing case (the last one written is the shrunk one).
func reportFail(prop string, c any, err error) {
	saveJSON("VERIF_FAILCASE", failInfo{Property: prop, Message: err.Error(), Case: c})
}

// replayFile returns the replay file if the run is a replay.
func replayFile() string { return os.Getenv("VERIF_REPLAY") }

func loadReplay(v any) error {
	b, err := os.ReadFile(replayFile())
	if err != nil {
		return err
	}
	var fi struct {
		Case json.RawMessage `json:"case"`
	}
	if json.Unmarshal(b, &fi) == nil && len(fi.Case) > 0 {
		return json.Unmarshal(fi.Case, v)
	}
	return json.Unmarshal(b, v)
}

// classifier decides whether a case was non-trivial and names its classes.
type classifier func(c *dbm.Case, st *dbm.Stats) (bool, []string)

func commonClasses(c *dbm.Case, st *dbm.Stats) []string {
	var cl []string
	add := func(ok bool, s string) {
		if ok {
			cl = append(cl, s)
		}
	}
	add(st.MemComp > 0, "flush")
	add(st.L0Comp > 0, "level0-compaction")
	add(st.NonL0Comp > 0, "deeper-compaction")
	add(st.SeekComp > 0, "seek-compaction")
	add(st.Reopens > 0, "reopen")
	add(st.Recovers > 0, "recover")
	add(st.SizeOfs > 0, "sizeof")
	add(st.Compacts > 0, "manual-compaction")
	add(st.DelBeforeCompact, "delete-then-compaction")
	add(st.DeepestLevel >= 2, "level>=2")
	add(c.Cmp != "bytewise" && c.Cmp != "", "custom-comparer")
	add(st.LargeBatch > 0, "large-batch")
	add(st.ManifestCreates > 1, "manifest-rotation")
	add(st.TrCommits > 0, "tr-commit")
	add(st.TrDiscards > 0, "tr-discard")
	add(st.Snaps > 0, "snapshot")
	add(c.Det, "deterministic-layout")
	return cl
}

// runDBM is the shared driver of the sequential DB state-machine checks.
func runDBM(t *testing.T, prop string, p *dbm.Profile, cls classifier) {
	p.Prop = prop
	if replayFile() != "" {
		c := &dbm.Case{}
		if err := loadReplay(c); err != nil {
			t.Fatalf("cannot load replay: %v", err)
		}
		n := envInt("VERIF_REPLAY_RUNS", 20)
		for i := 0; i < n; i++ {
			if _, err := dbm.Run(c); err != nil {
				fmt.Printf("REPLAY-FAIL property=%s run=%d: %v\n", prop, i, err)
				t.Fatalf("replay failed: %v", err)
			}
		}
		return
	}
	rec := evid.New(prop)
	defer rec.Flush()
	rapid.Check(t, func(rt *rapid.T) {
		c := dbm.Draw(rt, p)
		saveJSON("VERIF_INFLIGHT", c)
		st, err := dbm.Run(c)
		if err != nil {
			reportFail(prop, c, err)
			rt.Fatalf("%s violated: %v", prop, err)
		}
		nt, cl := cls(c, st)
		rec.Case(evid.FP(c), nt, append(cl, commonClasses(c, st)...)...)
		rec.Add("ops", st.Ops)
		rec.Add("versions_checked", st.Versions)
		rec.Add("iterator_moves", st.Moves)
		if nt && rec.WantSample() {
			rec.Sample(map[string]any{"case": c, "stats": st})
		}
	})
}

// goroutineDump returns the stacks of all goroutines that are inside goleveldb
// or the harness (used to document a blocked state).
func goroutineDump() string {
	buf := make([]byte, 1<<20)
	n := runtime.Stack(buf, true)
	var out []string
	for _, g := range strings.Split(string(buf[:n]), "\n\n") {
		if strings.Contains(g, "goleveldb/leveldb") {
			lines := strings.Split(g, "\n")
			if len(lines) > 14 {
				lines = lines[:14]
			}
			out = append(out, strings.Join(lines, "\n"))
		}
	}
	return strings.Join(out, "\n\n")
}

func utilRange(c *XCase, op *dbm.Op, key func(int) []byte) util.Range {
	var r util.Range
	if op.S != nil {
		r.Start = key(*op.S)
	}
	if op.L != nil {
		r.Limit = key(*op.L)
	}
	if r.Start != nil && r.Limit != nil && gen.Comparer(c.Cmp).Compare(r.Start, r.Limit) > 0 {
		r.Start, r.Limit = r.Limit, r.Start
	}
	return r
}

// excludedSet returns the generator switches turned on by open known findings
// (passed by the driver in VERIF_EXCLUDE).
func excludedSet() map[string]bool {
	m := map[string]bool{}
	for _, x := range strings.Split(os.Getenv("VERIF_EXCLUDE"), ",") {
		if x != "" {
			m[x] = true
		}
	}
	return m
}
