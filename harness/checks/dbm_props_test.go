package checks

import (
	"strings"
	"testing"

	"pgregory.net/rapid"

	"verif/evid"
	"verif/vfs"

	"verif/dbm"
	"verif/gen"
)

// C02: iterators enumerate exactly the live pairs, in order, for any walk.
func TestC02(t *testing.T) {
	p := &dbm.Profile{
		StrictVariants: true,
		MinOps:         10, MaxOps: 160, DetPercent: 50,
		W: map[string]int{"put": 24, "del": 10, "batch": 8, "bigbatch": 1, "compact": 3, "reopen": 1, "idle": 2,
			"snap": 4, "snaprel": 1, "scan": 14, "iter": 4, "iterwalk": 8, "iterrel": 3,
			"tropen": 1, "trcommit": 1, "trdiscard": 1},
	}
	runDBM(t, "C02", p, func(c *dbm.Case, st *dbm.Stats) (bool, []string) {
		var cl []string
		if st.Reversals > 0 {
			cl = append(cl, "reversal")
		}
		if st.Seeks > 0 {
			cl = append(cl, "seek")
		}
		if st.IterSources2 > 0 {
			cl = append(cl, "iterator-over-buffer-and-tables")
		}
		// non-trivial: a walk with a direction reversal and a Seek, over a view with at least
		// two physical sources (tables exist next to the write buffer) while snapshots or
		// deletes keep hidden entries physically present.
		return st.Reversals > 0 && st.Seeks > 0 && st.IterSources2 > 0 && (st.Snaps > 0 || st.DelBeforeCompact), cl
	})
}

// C03: snapshots and iterators are frozen views.
func TestC03(t *testing.T) {
	p := &dbm.Profile{
		StrictVariants: true,
		MinOps:         15, MaxOps: 200, DetPercent: 50,
		W: map[string]int{"put": 26, "del": 10, "batch": 8, "bigbatch": 1, "compact": 6, "idle": 3,
			"snap": 8, "snapget": 10, "snaprel": 4, "scan": 4, "iter": 5, "iterwalk": 8, "iterrel": 3, "get": 3, "churn": 1},
	}
	runDBM(t, "C03", p, func(c *dbm.Case, st *dbm.Stats) (bool, []string) {
		var cl []string
		if st.SnapReadsAfterComp > 0 {
			cl = append(cl, "handle-read-after-compaction-of-overwritten-key")
		}
		return st.SnapReadsAfterComp > 0, cl
	})
}

// C06: the live table set is always a well-formed LSM tree.
func TestC06(t *testing.T) {
	p := &dbm.Profile{
		StrictVariants: true,
		MinOps:         20, MaxOps: 300, DetPercent: 50, Tree: true, SlowRemovePercent: 30,
		W: map[string]int{"put": 34, "del": 10, "batch": 10, "bigbatch": 2, "compact": 4, "reopen": 2, "idle": 2,
			"snap": 2, "snaprel": 1, "get": 6, "tropen": 1, "trcommit": 2, "trdiscard": 1, "churn": 1, "recover": 1, "sizeof": 2},
	}
	runDBM(t, "C06", p, func(c *dbm.Case, st *dbm.Stats) (bool, []string) {
		var cl []string
		for k, v := range st.TreeClasses {
			if v > 0 {
				cl = append(cl, "version-"+k)
			}
		}
		return st.VersionsNontrivial > 0, cl
	})
}

// C07: files are deleted only when unneeded, and then they are deleted.
func TestC07(t *testing.T) {
	p := &dbm.Profile{
		StrictVariants: true,
		MinOps:         20, MaxOps: 260, DetPercent: 60, Files: true, SlowRemovePercent: 30,
		W: map[string]int{"put": 34, "del": 8, "batch": 8, "bigbatch": 2, "compact": 5, "reopen": 2, "idle": 6,
			"iter": 5, "iterwalk": 6, "iterrel": 2, "snap": 1, "snaprel": 1,
			"tropen": 1, "trcommit": 1, "trdiscard": 2, "churn": 2, "sizeof": 3},
		Tweak: func(t *rapid.T, o *gen.OptSpec) {
			o.OpenFilesCap = rapid.SampledFrom([]int{1, 1, 2, 2, 8, 0}).Draw(t, "ofc7")
		},
	}
	runDBM(t, "C07", p, func(c *dbm.Case, st *dbm.Stats) (bool, []string) {
		var cl []string
		if st.IterPinnedRemovals > 0 {
			cl = append(cl, "iterator-alive-across-table-removal")
		}
		if st.FileChecks > 0 {
			cl = append(cl, "file-set-checked-at-idle")
		}
		if st.MaxVersionsBehindIter >= 20 {
			cl = append(cl, "iterator>=20-versions-behind")
		}
		if st.MaxVersionsBehindIter > 256 {
			cl = append(cl, "iterator>256-versions-behind")
		}
		return st.IterPinnedRemovals > 0 && st.FileChecks > 0, cl
	})
}

// C11 (sequential part): transactions are isolated, atomic, leave no residue.
func TestC11(t *testing.T) {
	p := &dbm.Profile{
		StrictVariants: true,
		MinOps:         15, MaxOps: 200, DetPercent: 60, Files: true, TrSpillPercent: 30,
		W: map[string]int{"put": 30, "del": 8, "batch": 8, "bigbatch": 3, "get": 6, "trget": 8, "compact": 2, "reopen": 2, "idle": 4,
			"tropen": 6, "trcommit": 4, "trdiscard": 3, "scan": 4, "snap": 2, "snapget": 2, "snaprel": 1, "iter": 2, "iterwalk": 2, "iterrel": 2},
	}
	runDBM(t, "C11", p, func(c *dbm.Case, st *dbm.Stats) (bool, []string) {
		var cl []string
		if st.TrCommits > 0 && st.TrDiscards > 0 {
			cl = append(cl, "commit-and-discard")
		}
		return st.TrCommits+st.TrDiscards > 0 && st.MemComp > 0, cl
	})
}

// C20: the DB neither keeps nor exposes shared buffers across the API boundary.
func TestC20(t *testing.T) {
	p := &dbm.Profile{
		StrictVariants: true,
		MinOps:         10, MaxOps: 160, DetPercent: 40, Poison: true, SlowFlushPercent: 40,
		W: map[string]int{"put": 28, "del": 8, "batch": 10, "bigbatch": 1, "get": 16, "trget": 3, "compact": 3, "reopen": 1, "idle": 2,
			"iter": 3, "iterwalk": 8, "iterrel": 2, "scan": 3, "tropen": 1, "trcommit": 1, "trdiscard": 1},
	}
	runDBM(t, "C20", p, func(c *dbm.Case, st *dbm.Stats) (bool, []string) {
		var cl []string
		if c.Opts.DisableBufferPool {
			cl = append(cl, "buffer-pool-off")
		}
		if c.Opts.DisableBlockCache {
			cl = append(cl, "block-cache-off")
		}
		// non-trivial: Get results that came from tables were scribbled over and the keys read again
		return st.ScribbledTableGets > 1, cl
	})
}

// faultResidue is the fault-injected variant shared by C07 and C11: the C08
// workloads and fault plans, judged only on "no residue": once the injected
// failures have stopped and background work has settled, storage holds nothing
// but the live tables, one journal and the current manifest.
func faultResidue(t *testing.T, prop string) {
	if replayFile() != "" {
		c := &ECase{}
		if err := loadReplay(c); err != nil {
			t.Fatal(err)
		}
		for i := 0; i < envInt("VERIF_REPLAY_RUNS", 5); i++ {
			if _, err := runFaultsOpts(c, false, true); err != nil {
				t.Fatalf("replay failed: %v", err)
			}
		}
		return
	}
	rec := evid.New(prop)
	defer rec.Flush()
	rapid.Check(t, func(rt *rapid.T) {
		c := drawECase(rt, excludedSet())
		c.DamageBlk = 0
		for i := range c.Faults {
			// a file whose Remove fails stays in storage by definition (it is cleaned up at the
			// next open, which is checked after the reopen); the settled-state clause is judged
			// for all other failures
			if c.Faults[i].Kind == vfs.OpRemove {
				c.Faults[i].Kind = vfs.OpSync
			}
		}
		saveJSON("VERIF_INFLIGHT", c)
		st, err := runFaultsOpts(c, false, true)
		if err != nil {
			if prop != "C11" && !strings.Contains(err.Error(), "left behind") && !strings.Contains(err.Error(), "in storage") {
				// content violations belong to C08; this variant only judges residue
				rec.Case(evid.FP(c), false, "content-violation-left-to-C08")
				return
			}
			reportFail(prop, c, err)
			rt.Fatalf("%s violated: %v", prop, err)
		}
		nt := len(st.fired) > 0 && st.fileChecks > 0
		var cl []string
		if st.knownKept > 0 {
			rec.Add("excluded_by_known_finding", 1)
			cl = append(cl, "known-finding-F27-passed-over")
		}
		if nt {
			cl = append(cl, "file-set-checked-after-faults")
		}
		if st.hung {
			cl = append(cl, "inconclusive-call-did-not-return")
		}
		rec.Case(evid.FP(c), nt, cl...)
		if nt && rec.WantSample() {
			rec.Sample(map[string]any{"faults": c.Faults, "fired": describeFired(st.fired), "ops": len(c.Ops)})
		}
	})
}

// TestC07F / TestC11F: fault-injected "no residue" variants (run by the drivers of C07 and C11).
func TestC07F(t *testing.T) { faultResidue(t, "C07") }
func TestC11F(t *testing.T) { faultResidue(t, "C11") }
