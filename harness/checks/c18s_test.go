package checks

import (
	"bytes"
	"crypto/sha1"
	"fmt"
	"os"
	"path/filepath"
	"sort"
	"testing"

	"github.com/syndtr/goleveldb/leveldb"
	"github.com/syndtr/goleveldb/leveldb/opt"
	"github.com/syndtr/goleveldb/leveldb/storage"
	"github.com/syndtr/goleveldb/leveldb/util"
	"pgregory.net/rapid"

	"verif/evid"
	"verif/gen"
	"verif/model"
)

// RSCase is a lifecycle program over the repository's own storage
// implementations (file storage in a fresh temporary directory, memory
// storage): the ownership and read-only clauses of C18 on the real thing.
type RSCase struct {
	Kind  string    `json:"kind"` // file | filedb (leveldb.OpenFile: the DB owns the storage) | mem
	WB    int       `json:"wb"`
	Keys  []gen.Hex `json:"keys"`
	Steps []RSStep  `json:"steps"`
}

// RSStep: put del open2 reopen roopen closed faultclose
type RSStep struct {
	T    string `json:"t"`
	K    int    `json:"k,omitempty"`
	VLen int    `json:"vlen,omitempty"`
}

type sStats struct{ open2, reopen, roopen, roJournal, closed, pendingCurrent, faultClose int }

func dirDigest(dir string) (string, error) {
	ents, err := os.ReadDir(dir)
	if err != nil {
		return "", err
	}
	var lines []string
	for _, e := range ents {
		b, err := os.ReadFile(filepath.Join(dir, e.Name()))
		if err != nil {
			return "", err
		}
		lines = append(lines, fmt.Sprintf("%s %d %x", e.Name(), len(b), sha1.Sum(b)))
	}
	sort.Strings(lines)
	return fmt.Sprint(lines), nil
}

func runStorageLifecycle(c *RSCase, dir string) (st sStats, err error) {
	defer func() {
		if x := recover(); x != nil {
			err = fmt.Errorf("panic: %v", x)
		}
	}()
	o := &opt.Options{WriteBuffer: c.WB, CompactionTableSize: 1024, BlockSize: 256, DisableCompactionBackoff: true}
	var stor storage.Storage
	onDisk := c.Kind == "file" || c.Kind == "filedb"
	openStor := func(ro bool) (storage.Storage, error) {
		if c.Kind == "file" {
			return storage.OpenFile(dir, ro)
		}
		if stor != nil {
			return stor, nil // a memory storage lives as long as its object
		}
		return storage.NewMemStorage(), nil
	}
	// openDB opens the DB read-write the way the case's kind does it
	openDB := func() (*leveldb.DB, error) {
		if c.Kind == "filedb" {
			return leveldb.OpenFile(dir, o)
		}
		var err error
		if stor, err = openStor(false); err != nil {
			return nil, fmt.Errorf("opening the storage: %v", err)
		}
		return leveldb.Open(stor, o)
	}
	db, err := openDB()
	if err != nil {
		return st, fmt.Errorf("Open on a fresh storage: %v", err)
	}
	defer func() {
		if db != nil {
			db.Close()
		}
		if stor != nil {
			stor.Close()
		}
	}()
	m := model.NewMap()
	key := func(i int) []byte { return append([]byte{}, c.Keys[i%len(c.Keys)]...) }
	sinceFlush := 0
	readAll := func(d *leveldb.DB, what string) error {
		for i := range c.Keys {
			k := key(i)
			want, ok := m.Get(k)
			got, gerr := d.Get(k, nil)
			if ok && (gerr != nil || !bytes.Equal(got, want)) {
				return fmt.Errorf("%s: Get(%q) = %.30q, %v; model has %.30q", what, k, got, gerr, want)
			}
			if !ok && gerr != leveldb.ErrNotFound {
				return fmt.Errorf("%s: Get(%q) = %.30q, %v; model says not found", what, k, got, gerr)
			}
		}
		return nil
	}
	for i, s := range c.Steps {
		switch s.T {
		case "put":
			k, v := key(s.K), gen.VSpec{Len: s.VLen}.Bytes(fmt.Sprintf("%d", i))
			if err := db.Put(k, v, nil); err != nil {
				return st, fmt.Errorf("step #%d Put: %v", i, err)
			}
			m.Put(k, v)
			sinceFlush += len(k) + len(v)
		case "del":
			k := key(s.K)
			if err := db.Delete(k, nil); err != nil {
				return st, fmt.Errorf("step #%d Delete: %v", i, err)
			}
			m.Delete(k)
			sinceFlush += len(k)
		case "open2":
			// the storage is owned: a second DB on the same storage object must be refused, and for
			// the file storage a second storage object on the same directory as well (either mode)
			if c.Kind == "filedb" {
				if d2, err2 := leveldb.OpenFile(dir, o); err2 == nil {
					d2.Close()
					return st, fmt.Errorf("step #%d: a second leveldb.OpenFile on a directory that is in use succeeded", i)
				}
			} else if d2, err2 := leveldb.Open(stor, o); err2 == nil {
				d2.Close()
				return st, fmt.Errorf("step #%d: a second leveldb.Open on a storage that is in use succeeded", i)
			}
			if onDisk {
				for _, ro := range []bool{false, true} {
					if s2, err2 := storage.OpenFile(dir, ro); err2 == nil {
						s2.Close()
						return st, fmt.Errorf("step #%d: storage.OpenFile(readOnly=%v) on a directory owned by an open read-write storage succeeded", i, ro)
					}
				}
			}
			if err := readAll(db, fmt.Sprintf("step #%d after the refused second open", i)); err != nil {
				return st, err
			}
			st.open2++
		case "reopen", "roopen", "closed", "faultclose":
			hidden := []string{}
			if s.T == "faultclose" && onDisk {
				// storage trouble at shutdown: the table files vanish, a compaction fails and is
				// still being retried when Close is called; Close may report that error, but it
				// must release the storage all the same. The files come back afterwards.
				ents, _ := os.ReadDir(dir)
				for _, e := range ents {
					if filepath.Ext(e.Name()) == ".ldb" {
						if os.Rename(filepath.Join(dir, e.Name()), filepath.Join(dir, e.Name()+".hidden")) == nil {
							hidden = append(hidden, e.Name())
						}
					}
				}
				if len(hidden) > 0 {
					db.CompactRange(util.Range{})
					st.faultClose++
				}
			}
			cerr := db.Close()
			for _, n := range hidden {
				os.Rename(filepath.Join(dir, n+".hidden"), filepath.Join(dir, n))
			}
			if cerr != nil && len(hidden) == 0 {
				return st, fmt.Errorf("step #%d Close: %v", i, cerr)
			}
			if err2 := db.Close(); err2 != leveldb.ErrClosed {
				return st, fmt.Errorf("step #%d second Close returned %v", i, err2)
			}
			if s.T == "closed" {
				if _, gerr := db.Get(key(s.K), nil); gerr != leveldb.ErrClosed {
					return st, fmt.Errorf("step #%d Get after Close returned %v", i, gerr)
				}
				if perr := db.Put(key(s.K), []byte("x"), nil); perr != leveldb.ErrClosed {
					return st, fmt.Errorf("step #%d Put after Close returned %v", i, perr)
				}
				st.closed++
			}
			db = nil
			if c.Kind == "file" {
				if err := stor.Close(); err != nil {
					return st, fmt.Errorf("step #%d closing the storage: %v", i, err)
				}
				stor = nil
			}
			if s.T == "roopen" && onDisk {
				if s.K%2 == 1 {
					// what a crash in the middle of a manifest switch leaves behind: a pending
					// CURRENT.<n> next to CURRENT (here naming the live manifest)
					if cur, rerr := os.ReadFile(filepath.Join(dir, "CURRENT")); rerr == nil {
						var n int
						if _, serr := fmt.Sscanf(string(cur), "MANIFEST-%d", &n); serr == nil {
							if os.WriteFile(filepath.Join(dir, fmt.Sprintf("CURRENT.%d", n)), cur, 0o644) == nil {
								st.pendingCurrent++
							}
						}
					}
				}
				before, derr := dirDigest(dir)
				if derr != nil {
					return st, derr
				}
				rs, err := storage.OpenFile(dir, true)
				if err != nil {
					return st, fmt.Errorf("step #%d read-only OpenFile after Close: %v", i, err)
				}
				// readers share: a second read-only storage is fine, a read-write one is not
				if s2, err2 := storage.OpenFile(dir, false); err2 == nil {
					s2.Close()
					rs.Close()
					return st, fmt.Errorf("step #%d: read-write OpenFile on a directory held by a read-only storage succeeded", i)
				}
				ro := *o
				ro.ReadOnly = true
				rdb, err := leveldb.Open(rs, &ro)
				if err != nil {
					rs.Close()
					return st, fmt.Errorf("step #%d read-only Open: %v", i, err)
				}
				rerr := readAll(rdb, fmt.Sprintf("step #%d read-only DB", i))
				if rerr == nil {
					if perr := rdb.Put(key(s.K), []byte("x"), nil); perr != leveldb.ErrReadOnly {
						rerr = fmt.Errorf("step #%d Put on a read-only DB returned %v", i, perr)
					}
				}
				if rerr == nil {
					if cerr := rdb.CompactRange(util.Range{}); cerr != leveldb.ErrReadOnly {
						rerr = fmt.Errorf("step #%d CompactRange on a read-only DB returned %v", i, cerr)
					}
				}
				rdb.Close()
				rs.Close()
				if rerr != nil {
					return st, rerr
				}
				after, derr := dirDigest(dir)
				if derr != nil {
					return st, derr
				}
				if before != after {
					return st, fmt.Errorf("step #%d: the read-only session changed the directory:\n before %s\n after  %s", i, before, after)
				}
				st.roopen++
				if sinceFlush > 0 {
					st.roJournal++
				}
			}
			db, err = openDB()
			if err != nil {
				return st, fmt.Errorf("step #%d: the storage is not available again after Close: %v", i, err)
			}
			sinceFlush = 0
			if err := readAll(db, fmt.Sprintf("step #%d after reopen", i)); err != nil {
				return st, err
			}
			st.reopen++
		}
	}
	return st, readAll(db, "at the end")
}

func drawRSCase(t *rapid.T) *RSCase {
	c := &RSCase{}
	c.Kind = rapid.SampledFrom([]string{"file", "file", "filedb", "filedb", "mem"}).Draw(t, "kind")
	c.WB = rapid.SampledFrom([]int{512, 2048, 1 << 20}).Draw(t, "wb")
	c.Keys = gen.DrawKeyPool(t, 2, 10)
	nk := len(c.Keys)
	sg := rapid.Custom(func(t *rapid.T) RSStep {
		s := RSStep{T: rapid.SampledFrom([]string{"put", "put", "put", "put", "put", "del", "open2", "reopen", "roopen", "closed", "faultclose"}).Draw(t, "t")}
		s.K = rapid.IntRange(0, nk-1).Draw(t, "k")
		if s.T == "put" {
			s.VLen = rapid.SampledFrom([]int{0, 10, 100, 600}).Draw(t, "vl")
		}
		return s
	})
	c.Steps = rapid.SliceOfN(sg, 4, 40).Draw(t, "steps")
	return c
}

// TestC18S: ownership and read-only clauses of C18 on the file and memory storages.
func TestC18S(t *testing.T) {
	run := func(c *RSCase) (sStats, error) {
		dir, err := os.MkdirTemp("", "verif-c18s-")
		if err != nil {
			t.Fatal(err)
		}
		defer os.RemoveAll(dir)
		return runStorageLifecycle(c, dir)
	}
	if replayFile() != "" {
		c := &RSCase{}
		if err := loadReplay(c); err != nil {
			t.Fatal(err)
		}
		if _, err := run(c); err != nil {
			t.Fatalf("replay failed: %v", err)
		}
		return
	}
	rec := evid.New("C18")
	defer rec.Flush()
	rapid.Check(t, func(rt *rapid.T) {
		c := drawRSCase(rt)
		saveJSON("VERIF_INFLIGHT", c)
		st, err := run(c)
		if err != nil {
			reportFail("C18", c, err)
			rt.Fatalf("C18 violated: %v", err)
		}
		var cl []string
		add := func(ok bool, s string) {
			if ok {
				cl = append(cl, s)
			}
		}
		add(true, "real-"+c.Kind+"-storage")
		add(st.open2 > 0, "real-storage-second-open-refused")
		add(st.roopen > 0, "real-storage-read-only-session")
		add(st.roJournal > 0, "real-storage-read-only-with-data-in-journal")
		add(st.pendingCurrent > 0, "real-storage-read-only-with-pending-CURRENT")
		add(st.faultClose > 0, "real-storage-close-while-compaction-fails")
		nt := st.open2 > 0 && st.reopen > 0 && (c.Kind == "mem" || st.roopen > 0)
		rec.Case(evid.FP(c), nt, cl...)
	})
}
