package checks

import (
	"encoding/json"
	"fmt"
	"os"
	"testing"
	"time"

	"verif/dbm"
)

// TestShrink minimises the failing case in VERIF_REPLAY (a dbm case) and
// writes the result to VERIF_SHRINK_OUT. It is invoked by the driver after a
// violation; it is not a check by itself.
func TestShrink(t *testing.T) {
	if replayFile() == "" {
		t.Skip("no VERIF_REPLAY")
	}
	b, err := os.ReadFile(replayFile())
	if err != nil {
		t.Fatal(err)
	}
	var fi failInfo
	var raw struct {
		Property string          `json:"property"`
		Message  string          `json:"message"`
		Case     json.RawMessage `json:"case"`
	}
	if err := json.Unmarshal(b, &raw); err != nil {
		t.Fatal(err)
	}
	c := &dbm.Case{}
	if err := json.Unmarshal(raw.Case, c); err != nil || c.Ops == nil {
		t.Skip("not a dbm case")
	}
	runs := envInt("VERIF_SHRINK_RUNS", 6)
	lastMsg := raw.Message
	fails := func(n *dbm.Case) bool {
		r := runs
		if n.Det {
			r = 2
		}
		for i := 0; i < r; i++ {
			if _, err := dbm.Run(n); err != nil {
				lastMsg = err.Error()
				return true
			}
		}
		return false
	}
	if !fails(c) {
		fmt.Println("SHRINK: case does not reproduce; keeping it as is")
		return
	}
	s := dbm.Shrink(c, fails, time.Duration(envInt("VERIF_SHRINK_SECONDS", 30))*time.Second)
	fails(s)
	fi = failInfo{Property: raw.Property, Message: lastMsg, Case: s}
	saveJSON("VERIF_SHRINK_OUT", fi)
	fmt.Printf("SHRINK: %d ops -> %d ops\n", len(c.Ops), len(s.Ops))
}
