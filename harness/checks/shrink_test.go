package checks

import (
	"encoding/json"
	"fmt"
	"os"
	"testing"
	"time"

	"verif/dbm"
)

// TestShrink minimises the failing case in VERIF_REPLAY (a dbm case) and
// writes the result to VERIF_SHRINK_OUT. It is invoked by the driver after a
// violation; it is not a check by itself.
func TestShrink(t *testing.T) {
	if replayFile() == "" {
		t.Skip("no VERIF_REPLAY")
	}
	b, err := os.ReadFile(replayFile())
	if err != nil {
		t.Fatal(err)
	}
	var fi failInfo
	var raw struct {
		Property string          `json:"property"`
		Message  string          `json:"message"`
		Case     json.RawMessage `json:"case"`
	}
	if err := json.Unmarshal(b, &raw); err != nil {
		t.Fatal(err)
	}
	runs := envInt("VERIF_SHRINK_RUNS", 6)
	lastMsg := raw.Message
	budget := time.Duration(envInt("VERIF_SHRINK_SECONDS", 30)) * time.Second
	// run(base) executes the engine the case belongs to with the dbm case replaced by base;
	// wrap(base) rebuilds the full case for saving.
	var base *dbm.Case
	var run func(b *dbm.Case) error
	var wrap func(b *dbm.Case) any
	var probe struct {
		Base *dbm.Case `json:"base"`
		Ops  []dbm.Op  `json:"ops"`
	}
	json.Unmarshal(raw.Case, &probe)
	switch {
	case probe.Base != nil && raw.Property == "C19":
		rc := &RCase{}
		json.Unmarshal(raw.Case, rc)
		// first try to drop the continued-use steps and extra damage
		try := func(mod func(x *RCase)) {
			x := *rc
			mod(&x)
			for i := 0; i < 2; i++ {
				if _, err := runRecover(&x); err != nil {
					*rc = x
					return
				}
			}
		}
		try(func(x *RCase) { x.After = nil })
		for len(rc.Damage) > 1 {
			n := len(rc.Damage)
			try(func(x *RCase) { x.Damage, x.DmgOff = x.Damage[1:], x.DmgOff[1:] })
			if len(rc.Damage) == n {
				break
			}
		}
		base = rc.Base
		run = func(b *dbm.Case) error { x := *rc; x.Base = b; _, err := runRecover(&x); return err }
		wrap = func(b *dbm.Case) any { x := *rc; x.Base = b; return &x }
	case probe.Base != nil && raw.Property == "C18":
		lc := &LCase{}
		json.Unmarshal(raw.Case, lc)
		for len(lc.Scenes) > 1 { // keep only the failing scene if possible
			x := *lc
			x.Scenes = lc.Scenes[1:]
			if _, err := runLifecycle(&x); err == nil {
				break
			}
			*lc = x
		}
		base = lc.Base
		run = func(b *dbm.Case) error { x := *lc; x.Base = b; _, err := runLifecycle(&x); return err }
		wrap = func(b *dbm.Case) any { x := *lc; x.Base = b; return &x }
	case probe.Ops != nil:
		base = &dbm.Case{}
		json.Unmarshal(raw.Case, base)
		run = func(b *dbm.Case) error { _, err := dbm.Run(b); return err }
		wrap = func(b *dbm.Case) any { return b }
	default:
		t.Skip("no structural shrinker for this case type")
	}
	fails := func(n *dbm.Case) bool {
		r := runs
		if n.Det {
			r = 2
		}
		for i := 0; i < r; i++ {
			if err := run(n); err != nil {
				lastMsg = err.Error()
				return true
			}
		}
		return false
	}
	if !fails(base) {
		fmt.Println("SHRINK: case does not reproduce; keeping it as is")
		return
	}
	s := dbm.Shrink(base, fails, budget)
	fails(s)
	fi = failInfo{Property: raw.Property, Message: lastMsg, Case: wrap(s)}
	saveJSON("VERIF_SHRINK_OUT", fi)
	fmt.Printf("SHRINK: %d ops -> %d ops\n", len(base.Ops), len(s.Ops))
}
