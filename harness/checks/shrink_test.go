package checks

import (
	"encoding/json"
	"fmt"
	"os"
	"testing"
	"time"

	"verif/dbm"
	"verif/vfs"
)

// TestShrink minimises the failing case in VERIF_REPLAY (a dbm case) and
// writes the result to VERIF_SHRINK_OUT. It is invoked by the driver after a
// violation; it is not a check by itself.
func TestShrink(t *testing.T) {
	if replayFile() == "" {
		t.Skip("no VERIF_REPLAY")
	}
	b, err := os.ReadFile(replayFile())
	if err != nil {
		t.Fatal(err)
	}
	var fi failInfo
	var raw struct {
		Property string          `json:"property"`
		Message  string          `json:"message"`
		Case     json.RawMessage `json:"case"`
	}
	if err := json.Unmarshal(b, &raw); err != nil {
		t.Fatal(err)
	}
	runs := envInt("VERIF_SHRINK_RUNS", 6)
	lastMsg := raw.Message
	budget := time.Duration(envInt("VERIF_SHRINK_SECONDS", 30)) * time.Second
	// run(base) executes the engine the case belongs to with the dbm case replaced by base;
	// wrap(base) rebuilds the full case for saving.
	var base *dbm.Case
	var run func(b *dbm.Case) error
	var wrap func(b *dbm.Case) any
	var probe struct {
		Base   *dbm.Case   `json:"base"`
		Ops    []dbm.Op    `json:"ops"`
		Faults []vfs.Fault `json:"faults"`
	}
	json.Unmarshal(raw.Case, &probe)
	switch {
	case probe.Base != nil && raw.Property == "C19":
		rc := &RCase{}
		json.Unmarshal(raw.Case, rc)
		// first try to drop the continued-use steps and extra damage
		try := func(mod func(x *RCase)) {
			x := *rc
			mod(&x)
			for i := 0; i < 2; i++ {
				if _, err := runRecover(&x); err != nil {
					*rc = x
					return
				}
			}
		}
		try(func(x *RCase) { x.After = nil })
		for len(rc.Damage) > 1 {
			n := len(rc.Damage)
			try(func(x *RCase) { x.Damage, x.DmgOff = x.Damage[1:], x.DmgOff[1:] })
			if len(rc.Damage) == n {
				break
			}
		}
		base = rc.Base
		run = func(b *dbm.Case) error { x := *rc; x.Base = b; _, err := runRecover(&x); return err }
		wrap = func(b *dbm.Case) any { x := *rc; x.Base = b; return &x }
	case probe.Base != nil && raw.Property == "C18":
		lc := &LCase{}
		json.Unmarshal(raw.Case, lc)
		for len(lc.Scenes) > 1 { // keep only the failing scene if possible
			x := *lc
			x.Scenes = lc.Scenes[1:]
			if _, err := runLifecycle(&x); err == nil {
				break
			}
			*lc = x
		}
		base = lc.Base
		run = func(b *dbm.Case) error { x := *lc; x.Base = b; _, err := runLifecycle(&x); return err }
		wrap = func(b *dbm.Case) any { x := *lc; x.Base = b; return &x }
	case probe.Faults != nil:
		ec := &ECase{}
		json.Unmarshal(raw.Case, ec)
		tryE := func(mod func(x *ECase)) bool {
			x := *ec
			mod(&x)
			for i := 0; i < 2; i++ {
				if _, err := runFaultsFor(raw.Property, &x); err != nil {
					*ec = x
					return true
				}
			}
			return false
		}
		tryE(func(x *ECase) { x.After = nil })
		tryE(func(x *ECase) { x.DamageBlk = 0 })
		for i := 0; i < len(ec.Faults) && len(ec.Faults) > 1; {
			if !tryE(func(x *ECase) { x.Faults = append(append([]vfs.Fault{}, x.Faults[:i]...), x.Faults[i+1:]...) }) {
				i++
			}
		}
		tryE(func(x *ECase) { x.ArmAt = 0 })
		tryE(func(x *ECase) { x.HealAt = 1 << 20 })
		base = &dbm.Case{Opts: ec.Opts, Cmp: ec.Cmp, Keys: ec.Keys, Ops: ec.Ops, Det: true}
		mk := func(b *dbm.Case) *ECase {
			x := *ec
			x.Opts, x.Cmp, x.Keys, x.Ops = b.Opts, b.Cmp, b.Keys, b.Ops
			x.Opts.DisableBackoff = true
			return &x
		}
		run = func(b *dbm.Case) error { _, err := runFaultsFor(raw.Property, mk(b)); return err }
		wrap = func(b *dbm.Case) any { return mk(b) }
	case raw.Property == "C04":
		xc := &XCase{}
		json.Unmarshal(raw.Case, xc)
		tryX := func(mod func(x *XCase)) {
			x := *xc
			mod(&x)
			for i := 0; i < 3; i++ {
				if _, err := runCrashOnce(&x, x.CrashAt); err != nil {
					*xc = x
					return
				}
			}
		}
		tryX(func(x *XCase) { x.After = nil })
		tryX(func(x *XCase) { x.Nested = nil })
		base = &dbm.Case{Opts: xc.Opts, Cmp: xc.Cmp, Keys: xc.Keys, Ops: xc.Ops, Det: true}
		mk := func(b *dbm.Case) *XCase {
			x := *xc
			x.Opts, x.Cmp, x.Keys, x.Ops = b.Opts, b.Cmp, b.Keys, b.Ops
			return &x
		}
		// removing operations shifts the crash instant: accept a failure at any instant up to the old one
		run = func(b *dbm.Case) error {
			x := mk(b)
			if _, err := runCrashOnce(x, x.CrashAt); err != nil {
				return err
			}
			for at := x.CrashAt - 1; at > 4 && at > x.CrashAt-40; at-- {
				if _, err := runCrashOnce(x, at); err != nil {
					xc.CrashAt = at
					return err
				}
			}
			return nil
		}
		wrap = func(b *dbm.Case) any { return mk(b) }
	case probe.Ops != nil:
		base = &dbm.Case{}
		json.Unmarshal(raw.Case, base)
		run = func(b *dbm.Case) error { _, err := dbm.Run(b); return err }
		wrap = func(b *dbm.Case) any { return b }
	default:
		t.Skip("no structural shrinker for this case type")
	}
	fails := func(n *dbm.Case) bool {
		r := runs
		if n.Det {
			r = 2
		}
		for i := 0; i < r; i++ {
			if err := run(n); err != nil {
				lastMsg = err.Error()
				return true
			}
		}
		return false
	}
	if !fails(base) {
		fmt.Println("SHRINK: case does not reproduce; keeping it as is")
		return
	}
	s := dbm.Shrink(base, fails, budget)
	fails(s)
	fi = failInfo{Property: raw.Property, Message: lastMsg, Case: wrap(s)}
	saveJSON("VERIF_SHRINK_OUT", fi)
	fmt.Printf("SHRINK: %d ops -> %d ops\n", len(base.Ops), len(s.Ops))
}
