package checks

import (
	"bytes"
	"fmt"
	"os"
	"runtime"
	"sort"
	"strings"
	"testing"
	"time"

	"github.com/syndtr/goleveldb/leveldb"
	"github.com/syndtr/goleveldb/leveldb/opt"
	"github.com/syndtr/goleveldb/leveldb/storage"
	"github.com/syndtr/goleveldb/leveldb/util"
	"pgregory.net/rapid"

	"verif/dbm"
	"verif/evid"
	"verif/gen"
	"verif/model"
	"verif/tparse"
	"verif/vfs"
)

// ECase is a storage-error case.
type ECase struct {
	Opts       gen.OptSpec `json:"opts"`
	Cmp        string      `json:"cmp"`
	Keys       []gen.Hex   `json:"keys"`
	Ops        []dbm.Op    `json:"ops"`
	Faults     []vfs.Fault `json:"faults"`
	ArmAt      int         `json:"armat"`  // the plan is armed before this op
	HealAt     int         `json:"healat"` // and removed before this op (>= ArmAt)
	After      []dbm.Op    `json:"after,omitempty"`
	DamageBlk  int         `json:"dmgblk,omitempty"` // >0: checksum clause: after the run, alter one byte of this data block (mod count) at rest
	DamageOff  int         `json:"dmgoff,omitempty"`
	Redirected int         `json:"redirected,omitempty"` // fault draws redirected because of an open known finding
	SlowTable  int         `json:"slowtable,omitempty"`  // >0: every table write takes this many microseconds, so that a background compaction and a transaction's own table flush overlap
}

type eStats struct {
	fired            []vfs.LogEntry
	opsAfterFault    int
	reopened         bool
	hung             bool
	failedWrites     int
	readErrors       int
	scansUnderFaults int
	commitRetries    int
	knownKept        int
	damageChecked    bool
	damageDetected   bool
	fileChecks       int
	slowInfo         string
	phaseForeground  bool
}

var errHung = fmt.Errorf("call did not return in time")

var dbgFS *vfs.FS // last storage used (debugging aid)

// callCtl runs DB calls under a watchdog. In C08 mode a call that does not
// return is merely inconclusive. In C09 mode the watchdog first heals the
// storage (injected failures stop), allows the bound again, and then decides
// with two goroutine dumps whether the call is in a stable blocked state.
type callCtl struct {
	strict   bool
	fs       *vfs.FS
	grace    time.Duration // time allowed while faults may still be active
	bound    time.Duration // time allowed after the faults have healed
	hangErr  error
	slowInfo string
}

func stacksOfDB() map[string]string {
	buf := make([]byte, 4<<20)
	n := runtime.Stack(buf, true)
	out := map[string]string{}
	for _, g := range strings.Split(string(buf[:n]), "\n\n") {
		if !strings.Contains(g, "goleveldb/leveldb") {
			continue
		}
		lines := strings.Split(g, "\n")
		head := lines[0] // goroutine N [state, duration]:
		id := strings.Fields(head)[1]
		state := head
		if i := strings.Index(head, "["); i >= 0 {
			state = head[i:]
			if j := strings.IndexAny(state, ",]"); j >= 0 {
				state = state[:j]
			}
		}
		// keep function names only (arguments may legitimately differ in formatting)
		var fr []string
		for _, l := range lines[1:] {
			if !strings.HasPrefix(l, "\t") {
				if k := strings.Index(l, "("); k > 0 {
					l = l[:k]
				}
				fr = append(fr, l)
			}
		}
		out[id] = state + " " + strings.Join(fr, " < ")
	}
	return out
}

func (cc *callCtl) do(what string, f func()) bool {
	done := make(chan struct{})
	go func() { defer close(done); f() }()
	wait := func(d time.Duration) bool {
		select {
		case <-done:
			return true
		case <-time.After(d):
			return false
		}
	}
	if wait(cc.grace) {
		return true
	}
	if !cc.strict {
		return false
	}
	cc.fs.Heal() // injected failures stop now
	if wait(cc.bound) {
		return true
	}
	a := stacksOfDB()
	ops1 := cc.fs.Ops()
	if wait(1500 * time.Millisecond) {
		return true
	}
	b := stacksOfDB()
	// no storage operation at all for a while although a call is pending and no failure is
	// being injected: the DB is retrying without making progress (or is blocked)
	if wait(3 * time.Second) {
		return true
	}
	if cc.fs.Ops() == ops1 {
		cc.hangErr = fmt.Errorf("%s did not return within %v after all injected failures had stopped, and the DB performed no storage operation for a further 4.5 s (blocked, or retrying without progress):\n%s", what, cc.bound, goroutineDump())
		return false
	}
	stable := len(a) == len(b)
	for id, s := range a {
		if b[id] != s {
			stable = false
		}
		if strings.HasPrefix(s, "[runnable") || strings.HasPrefix(s, "[running") || strings.HasPrefix(s, "[sleep") || strings.HasPrefix(s, "[syscall") || strings.HasPrefix(s, "[IO wait") {
			stable = false
		}
	}
	if !stable {
		var diff []string
		for id, x := range a {
			if b[id] != x || strings.HasPrefix(x, "[runnable") || strings.HasPrefix(x, "[running") || strings.HasPrefix(x, "[sleep") {
				if len(x) > 260 {
					x = x[:260]
				}
				diff = append(diff, x)
			}
		}
		sort.Strings(diff)
		if len(diff) > 4 {
			diff = diff[:4]
		}
		cc.slowInfo = what + " still running, not blocked: " + strings.Join(diff, " || ")
	}
	if stable {
		cc.hangErr = fmt.Errorf("%s did not return within %v after all injected failures had stopped, and the DB is in a stable blocked state:\n%s", what, cc.bound, goroutineDump())
	}
	return false
}

func timed(d time.Duration, f func()) bool {
	done := make(chan struct{})
	go func() { defer close(done); f() }()
	select {
	case <-done:
		return true
	case <-time.After(d):
		return false
	}
}

// allowedValues computes, per key, the values a read may return while the fate
// of failed writes is still open: the effect of the last successful write and
// of every failed write issued after it.
type allowed struct {
	vals   map[string]bool
	absent bool
}

func allowedFor(issued []*model.Batch, k string) allowed {
	a := allowed{vals: map[string]bool{}, absent: true}
	for _, b := range issued {
		var eff *model.BOp
		for i := range b.Ops {
			if b.Ops[i].K == k {
				eff = &b.Ops[i]
			}
		}
		if eff == nil {
			continue
		}
		if b.Mandatory {
			a = allowed{vals: map[string]bool{}}
			if eff.Del {
				a.absent = true
			} else {
				a.vals[eff.V] = true
			}
		} else if eff.Del {
			a.absent = true
		} else {
			a.vals[eff.V] = true
		}
	}
	return a
}

func runFaults(c *ECase) (eStats, error) { return runFaultsOpts(c, false, false) }

func runFaultsMode(c *ECase, strict bool) (eStats, error) { return runFaultsOpts(c, strict, false) }

// runFaultsOpts: strict = C09 mode (only hangs are judged); files = additionally require, once the
// faults have healed and background work has settled, that storage holds nothing but the live
// tables, one journal and the current manifest (C07 / C11 "no residue").
func runFaultsOpts(c *ECase, strict, files bool) (st eStats, err error) {
	defer func() {
		if x := recover(); x != nil {
			err = fmt.Errorf("panic: %v", x)
		}
	}()
	o := c.Opts.Build(c.Cmp)
	fs := vfs.New()
	dbgFS = fs
	if c.SlowTable > 0 {
		d := time.Duration(c.SlowTable) * time.Microsecond
		fs.Hook = func(kind string, fd storage.FileDesc) {
			if fd.Type == storage.TypeTable && kind == vfs.OpWrite {
				time.Sleep(d)
			}
		}
	}
	ctl := &callCtl{strict: strict, fs: fs, grace: 25 * time.Second, bound: 0}
	if strict {
		// the injected failures must be able to outlast a call that gives up by itself, so that
		// the *next* call still meets them: Transaction.Commit retries for 3 s before it returns
		ctl.grace, ctl.bound = 5*time.Second, 12*time.Second
		if os.Getenv("VERIF_C09_FAST") != "" { // while shrinking: shorter bounds (the result is re-checked with the full ones)
			ctl.grace, ctl.bound = 3500*time.Millisecond, 4*time.Second
		}
	}
	defer func() {
		st.slowInfo = ctl.slowInfo
		if strict {
			// C09 decides only whether calls return; contents are C08's business
			err = ctl.hangErr
		} else if err == nil && ctl.hangErr != nil {
			err = ctl.hangErr
		}
	}()
	key := func(i int) []byte {
		if len(c.Keys) == 0 {
			return []byte("k")
		}
		return append([]byte{}, c.Keys[i%len(c.Keys)]...)
	}
	db, err := leveldb.Open(fs, o)
	if err != nil {
		return st, fmt.Errorf("Open on a fresh storage: %v", err)
	}
	closeDB := func() bool {
		if db == nil {
			return true
		}
		d := db
		db = nil
		return ctl.do("Close", func() { d.Close() })
	}
	defer closeDB()
	var issued []*model.Batch
	var tr *leveldb.Transaction
	var trBatch *model.Batch
	nextID := 0
	newBatch := func() *model.Batch { nextID++; return &model.Batch{ID: nextID} }
	checkRead := func(i int, k []byte) error {
		var got []byte
		var gerr error
		if !ctl.do("Get", func() { got, gerr = db.Get(k, nil) }) {
			st.hung = true
			return errHung
		}
		a := allowedFor(issued, string(k))
		switch {
		case gerr == leveldb.ErrNotFound:
			if !a.absent {
				return fmt.Errorf("op #%d: Get(%q) says not found, but the last successful write to it stored a value and no later write could have removed it", i, k)
			}
		case gerr != nil:
			st.readErrors++
		default:
			if !a.vals[string(got)] {
				return fmt.Errorf("op #%d: Get(%q) = %.40q which is neither the last successfully written value nor the value of a later failed write", i, k, got)
			}
		}
		return nil
	}
	// checkScan iterates over the whole DB (forwards or backwards) while failures may be active:
	// every yielded pair must be admissible for its key, keys must be strictly ordered, and an
	// iteration that reports no error must not have skipped a key that certainly exists
	checkScan := func(i int, backward bool) error {
		type kv struct{ k, v []byte }
		var got []kv
		var ierr error
		if !ctl.do("iterator scan", func() {
			it := db.NewIterator(nil, nil)
			defer it.Release()
			for ok := func() bool {
				if backward {
					return it.Last()
				}
				return it.First()
			}(); ok; ok = func() bool {
				if backward {
					return it.Prev()
				}
				return it.Next()
			}() {
				got = append(got, kv{append([]byte{}, it.Key()...), append([]byte{}, it.Value()...)})
				if len(got) > 10000 {
					break
				}
			}
			ierr = it.Error()
		}) {
			st.hung = true
			return errHung
		}
		dir := "forward"
		if backward {
			dir = "backward"
		}
		seen := map[string]bool{}
		for j, p := range got {
			if j > 0 {
				d := o.GetComparer().Compare(got[j-1].k, p.k)
				if (!backward && d >= 0) || (backward && d <= 0) {
					return fmt.Errorf("op #%d: %s scan yields %q after %q", i, dir, p.k, got[j-1].k)
				}
			}
			seen[string(p.k)] = true
			a := allowedFor(issued, string(p.k))
			if !a.vals[string(p.v)] {
				return fmt.Errorf("op #%d: %s scan yields %q = %.40q which is neither the last successfully written value nor the value of a later failed write (pair #%d of %d; iterator error at the end: %v)", i, dir, p.k, p.v, j, len(got), ierr)
			}
		}
		if ierr != nil {
			st.readErrors++
			return nil
		}
		for ki := range c.Keys {
			k := key(ki)
			if a := allowedFor(issued, string(k)); !a.absent && !seen[string(k)] {
				return fmt.Errorf("op #%d: %s scan ended without an error but skipped %q, whose last successful write stored a value that no later write could have removed", i, dir, k)
			}
		}
		st.scansUnderFaults++
		return nil
	}
	// checkSeek positions a fresh iterator with Seek(k) while failures may be active: the pair it
	// lands on must be admissible for its key, and - if the iterator reports no error - no key
	// that certainly exists may lie between k and the landing point
	checkSeek := func(i int, k []byte) error {
		var rk, rv []byte
		var ok bool
		var ierr error
		if !ctl.do("iterator Seek", func() {
			it := db.NewIterator(nil, nil)
			defer it.Release()
			if ok = it.Seek(k); ok {
				rk, rv = append([]byte{}, it.Key()...), append([]byte{}, it.Value()...)
			}
			ierr = it.Error()
		}) {
			st.hung = true
			return errHung
		}
		cmp := o.GetComparer()
		if ok {
			if cmp.Compare(rk, k) < 0 {
				return fmt.Errorf("op #%d: Seek(%q) landed on the smaller key %q", i, k, rk)
			}
			if a := allowedFor(issued, string(rk)); !a.vals[string(rv)] {
				return fmt.Errorf("op #%d: Seek(%q) landed on %q = %.40q which is neither the last successfully written value nor the value of a later failed write (iterator error: %v)", i, k, rk, rv, ierr)
			}
		}
		if ierr != nil {
			st.readErrors++
			return nil
		}
		for ki := range c.Keys {
			p := key(ki)
			if cmp.Compare(p, k) < 0 || (ok && cmp.Compare(p, rk) >= 0) {
				continue
			}
			if a := allowedFor(issued, string(p)); !a.absent {
				return fmt.Errorf("op #%d: Seek(%q) landed on %q (valid=%v) without an error, skipping %q, whose last successful write stored a value that no later write could have removed", i, k, rk, ok, p)
			}
		}
		st.scansUnderFaults++
		return nil
	}
	armed, healed := false, false
	for i := range c.Ops {
		if i >= c.ArmAt && !armed {
			fs.SetFaults(c.Faults)
			armed = true
		}
		if i >= c.HealAt && armed && !healed {
			fs.Heal()
			healed = true
		}
		if len(fs.Fired()) > 0 {
			st.opsAfterFault++
		}
		op := &c.Ops[i]
		if db == nil {
			// a failed reopen left us without a DB: try again
			var oerr error
			if !ctl.do("Open", func() { db, oerr = leveldb.Open(fs, o) }) {
				st.hung = true
				return st, nil
			}
			if oerr != nil {
				db = nil
				continue
			}
		}
		wo := &opt.WriteOptions{Sync: op.Sync}
		switch op.T {
		case "put", "del", "batch":
			b := newBatch()
			lb := new(leveldb.Batch)
			ops := op.B
			if op.T != "batch" {
				ops = []dbm.BOp{{Del: op.T == "del", K: op.K, V: op.V}}
			}
			for j, bo := range ops {
				k := key(bo.K)
				if bo.Del {
					lb.Delete(k)
					b.Ops = append(b.Ops, model.BOp{Del: true, K: string(k)})
				} else {
					v := bo.V
					v.Raw = false
					val := v.Bytes(fmt.Sprintf("%d.%d", i, j))
					lb.Put(k, val)
					b.Ops = append(b.Ops, model.BOp{K: string(k), V: string(val)})
				}
			}
			if tr != nil {
				var werr error
				if !ctl.do("Transaction.Write", func() { werr = tr.Write(lb, wo) }) {
					st.hung = true
					return st, nil
				}
				if werr != nil {
					// the transaction can only be discarded now
					t := tr
					tr, trBatch = nil, nil
					if !ctl.do("Transaction.Discard", func() { t.Discard() }) {
						st.hung = true
						return st, nil
					}
					continue
				}
				trBatch.Ops = append(trBatch.Ops, b.Ops...)
				continue
			}
			issued = append(issued, b)
			var werr error
			if !ctl.do("Write", func() { werr = db.Write(lb, wo) }) {
				st.hung = true
				return st, nil
			}
			if werr == nil {
				b.Mandatory = true
			} else {
				st.failedWrites++
			}
			for j, bo := range b.Ops {
				if j >= 2 {
					break
				}
				if err := checkRead(i, []byte(bo.K)); err != nil {
					if err == errHung {
						return st, nil
					}
					return st, err
				}
			}
		case "get":
			if err := checkRead(i, key(op.K)); err != nil {
				if err == errHung {
					return st, nil
				}
				return st, err
			}
		case "seek":
			if err := checkSeek(i, key(op.K)); err != nil {
				if err == errHung {
					return st, nil
				}
				return st, err
			}
		case "scan":
			if err := checkScan(i, op.Slot == 1); err != nil {
				if err == errHung {
					return st, nil
				}
				return st, err
			}
		case "compact":
			if tr == nil {
				if !ctl.do("CompactRange", func() { db.CompactRange(utilRangeE(c, op, key)) }) {
					st.hung = true
					return st, nil
				}
			}
		case "setro":
			if tr == nil {
				if !ctl.do("SetReadOnly", func() { db.SetReadOnly() }) {
					st.hung = true
					return st, nil
				}
			}
		case "bigtr":
			// a transaction spanning several internal flushes, committed at once
			if tr != nil {
				continue
			}
			var terr error
			var t *leveldb.Transaction
			if !ctl.do("OpenTransaction", func() { t, terr = db.OpenTransaction() }) {
				st.hung = true
				return st, nil
			}
			if terr != nil {
				continue
			}
			b := newBatch()
			wb := o.GetWriteBuffer()
			if wb > 4096 {
				wb = 4096
			}
			failed := false
			for j, bo := range op.B {
				k := key(bo.K)
				val := gen.VSpec{Len: wb/2 + 40, Fill: j % 2}.Bytes(fmt.Sprintf("%d.%d", i, j))
				var werr error
				if !ctl.do("Transaction.Put", func() { werr = t.Put(k, val, nil) }) {
					st.hung = true
					return st, nil
				}
				// a failed Put may be repeated (same key, same value: harmless whether or not the
				// failed call was applied); every other bigtr does that, twice at most
				for retry := 0; werr != nil && i%2 == 0 && retry < 2; retry++ {
					st.commitRetries++
					if !ctl.do("Transaction.Put (retry)", func() { werr = t.Put(k, val, nil) }) {
						st.hung = true
						return st, nil
					}
				}
				if werr != nil {
					failed = true
					break
				}
				b.Ops = append(b.Ops, model.BOp{K: string(k), V: string(val)})
			}
			if !failed {
				issued = append(issued, b)
				var cerr error
				if !ctl.do("Transaction.Commit", func() { cerr = t.Commit() }) {
					st.hung = true
					return st, nil
				}
				for retry := 0; cerr != nil && i%2 == 0 && retry < 2; retry++ {
					st.commitRetries++
					if !ctl.do("Transaction.Commit (retry)", func() { cerr = t.Commit() }) {
						st.hung = true
						return st, nil
					}
				}
				if cerr == nil {
					b.Mandatory = true
				} else {
					st.failedWrites++
					failed = true
				}
			}
			if failed {
				if !ctl.do("Transaction.Discard", func() { t.Discard() }) {
					st.hung = true
					return st, nil
				}
			}
		case "reopen":
			if tr != nil {
				tr, trBatch = nil, nil
			}
			if !closeDB() {
				st.hung = true
				return st, nil
			}
			var oerr error
			if !ctl.do("Open", func() { db, oerr = leveldb.Open(fs, o) }) {
				st.hung = true
				return st, nil
			}
			if oerr != nil {
				db = nil
			} else {
				st.reopened = true
			}
		case "tropen":
			if tr == nil {
				var terr error
				var t *leveldb.Transaction
				if !ctl.do("OpenTransaction", func() { t, terr = db.OpenTransaction() }) {
					st.hung = true
					return st, nil
				}
				if terr == nil {
					tr, trBatch = t, newBatch()
				}
			}
		case "trcommit":
			if tr != nil {
				issued = append(issued, trBatch)
				var cerr error
				t := tr
				if !ctl.do("Transaction.Commit", func() { cerr = t.Commit() }) {
					st.hung = true
					return st, nil
				}
				// "If error is not nil, then the transaction is not committed, it can then either
				// be retried or discarded": every other failed Commit is retried (twice at most)
				for retry := 0; cerr != nil && i%2 == 0 && retry < 2; retry++ {
					st.commitRetries++
					if !ctl.do("Transaction.Commit (retry)", func() { cerr = t.Commit() }) {
						st.hung = true
						return st, nil
					}
				}
				if cerr == nil {
					trBatch.Mandatory = true
				} else {
					st.failedWrites++
					if !ctl.do("Transaction.Discard", func() { t.Discard() }) {
						st.hung = true
						return st, nil
					}
				}
				tr, trBatch = nil, nil
			}
		case "trdiscard":
			if tr != nil {
				t := tr
				tr, trBatch = nil, nil
				if !ctl.do("Transaction.Discard", func() { t.Discard() }) {
					st.hung = true
					return st, nil
				}
			}
		}
	}
	st.fired = fs.Fired()
	fs.Heal()
	if tr != nil {
		t := tr
		tr = nil
		if !ctl.do("Transaction.Discard", func() { t.Discard() }) {
			st.hung = true
			return st, nil
		}
	}
	// quiescent checkpoint on the healed storage, then after a reopen
	scan := func(what string) (map[string]string, *model.Map, error) {
		var kvs []model.KV
		var serr error
		if !ctl.do("iterator scan", func() {
			it := db.NewIterator(nil, nil)
			kvs, serr = dbm.FullScan(it)
			it.Release()
		}) {
			st.hung = true
			return nil, nil, errHung
		}
		if serr != nil {
			st.readErrors++
			if strings.HasPrefix(what, "after close and reopen") {
				// all failures have stopped and the DB was reopened: data that cannot be read any
				// more is lost
				return nil, nil, fmt.Errorf("%s (faults fired: %v): the DB can no longer be read: %v", what, describeFired(st.fired), serr)
			}
			// reads may fail while the DB is still in its error state
			return nil, nil, nil
		}
		R := map[string]string{}
		m := model.NewMap()
		for _, kv := range kvs {
			R[string(kv.K)] = string(kv.V)
			m.Put(kv.K, kv.V)
		}
		if msg := model.Solve(nil, issued, R); msg != "" {
			return nil, nil, fmt.Errorf("%s (faults fired: %v): contents are not explained by all successful writes plus a subset of the failed ones: %s", what, describeFired(st.fired), msg)
		}
		return R, m, nil
	}
	if db != nil {
		// let retried background work finish on the healed storage
		var ierr error
		ctl.do("VerifWaitIdle", func() { ierr = db.VerifWaitIdle() })
		if files && ierr == nil && !st.hung {
			if msg := residue(db, fs); msg != "" {
				// known finding F27: a transaction discarded while the manifest could not be replaced
				// keeps its tables until the next successful commit installs a manifest; if the DB
				// itself logged that and no manifest has been installed since, the leftover tables
				// are that finding's (counted and passed over when the finding is listed as open)
				if strings.Contains(msg, "left behind") && fs.KeptTables() {
					if excludedSet()["f27-kept-tables-until-next-commit"] {
						st.knownKept++
						msg = ""
					} else {
						msg += " - the DB logged that it keeps the tables of a discarded transaction and no manifest has been installed since"
					}
				}
				if msg != "" {
					return st, fmt.Errorf("after the faults healed and background work settled (faults fired: %v): %s", describeFired(fs.Fired()), msg)
				}
			}
			st.fileChecks++
		}
		if _, _, err := scan("after the faults healed"); err != nil {
			if err == errHung {
				return st, nil
			}
			return st, err
		}
	}
	if !closeDB() {
		st.hung = true
		return st, nil
	}
	var oerr error
	if !ctl.do("Open", func() { db, oerr = leveldb.Open(fs, o) }) {
		st.hung = true
		return st, nil
	}
	if oerr != nil {
		db = nil
		return st, fmt.Errorf("reopening on the healed storage failed (faults fired: %v): %v", describeFired(st.fired), oerr)
	}
	st.reopened = true
	if files {
		var ierr error
		ctl.do("VerifWaitIdle", func() { ierr = db.VerifWaitIdle() })
		if ierr == nil && !st.hung {
			if msg := residue(db, fs); msg != "" {
				return st, fmt.Errorf("after close and reopen on the healed storage (faults fired: %v): %s", describeFired(st.fired), msg)
			}
			st.fileChecks++
		}
	}
	_, m, err := scan("after close and reopen on the healed storage")
	if err != nil {
		if err == errHung {
			return st, nil
		}
		return st, err
	}
	if !closeDB() {
		st.hung = true
		return st, nil
	}
	if m == nil {
		return st, nil
	}
	// continued use (fault-free, full oracles)
	ac := &dbm.Case{Prop: "C08", Opts: c.Opts, Cmp: c.Cmp, Keys: c.Keys, Ops: c.After, Det: true, Tree: true}
	e := dbm.NewEnvOn(ac, fs, m)
	defer e.Abort()
	if err := e.Open(); err != nil {
		return st, fmt.Errorf("continued use: %v", err)
	}
	for i := range c.After {
		if err := e.Step(i, &c.After[i]); err != nil {
			return st, fmt.Errorf("continued use after the faults: %v", err)
		}
	}
	if err := e.ReleaseHandles(); err != nil {
		return st, err
	}
	if err := e.Idle(); err != nil {
		return st, err
	}
	if c.DamageBlk <= 0 {
		return st, e.Finish()
	}
	// checksum clause: damage at rest, default strictness
	if err := e.Close(); err != nil {
		return st, err
	}
	type blk struct {
		fd       storage.FileDesc
		off, len int
	}
	var blocks []blk
	for _, fd := range fs.Files() {
		if fd.Type != storage.TypeTable {
			continue
		}
		data, _ := fs.ReadFile(fd)
		bs, perr := tparse.Parse(data)
		if perr != nil {
			return st, fmt.Errorf("checker could not parse table %d: %v", fd.Num, perr)
		}
		for _, b := range bs {
			blocks = append(blocks, blk{fd, b.Off, b.Len})
		}
	}
	if len(blocks) == 0 {
		return st, nil
	}
	b := blocks[c.DamageBlk%len(blocks)]
	data, _ := fs.ReadFile(b.fd)
	data[b.off+c.DamageOff%b.len] ^= 0x24
	fs.WriteFile(b.fd, data)
	st.damageChecked = true
	ddb, derr := leveldb.Open(fs, o)
	if derr != nil {
		st.damageDetected = true // reported as an error, not served
		return st, nil
	}
	defer ddb.Close()
	for i := range c.Keys {
		k := key(i)
		want, ok := e.M.Get(k)
		got, gerr := ddb.Get(k, nil)
		switch {
		case gerr == nil:
			if !ok || !bytes.Equal(got, want) {
				return st, fmt.Errorf("with one altered byte in table %d (block at %d): Get(%q) served %.40q, the stored value is %.40q (present=%v)", b.fd.Num, b.off, k, got, want, ok)
			}
		case gerr == leveldb.ErrNotFound:
			if ok {
				return st, fmt.Errorf("with one altered byte in table %d (block at %d): Get(%q) says not found for a stored key instead of reporting the damage", b.fd.Num, b.off, k)
			}
		default:
			st.damageDetected = true
		}
	}
	it := ddb.NewIterator(nil, nil)
	n := 0
	for it.Next() {
		want, ok := e.M.Get(it.Key())
		if !ok || !bytes.Equal(want, it.Value()) {
			it.Release()
			return st, fmt.Errorf("with one altered byte in table %d: scan served %q=%.40q which is not the stored pair", b.fd.Num, it.Key(), it.Value())
		}
		n++
	}
	ierr := it.Error()
	it.Release()
	if ierr != nil {
		st.damageDetected = true
	} else if n != e.M.Len() {
		return st, fmt.Errorf("with one altered byte in table %d: scan served %d of %d pairs and reported no error", b.fd.Num, n, e.M.Len())
	}
	return st, nil
}

// residue lists what storage holds beyond the live tables, one journal and the current manifest.
func residue(db *leveldb.DB, fs *vfs.FS) string {
	live := map[int64]bool{}
	for _, t := range db.VerifTables() {
		live[t.Num] = true
	}
	journals := 0
	for _, fd := range fs.Files() {
		switch fd.Type {
		case storage.TypeTable:
			if !live[fd.Num] {
				return fmt.Sprintf("table file %d is in storage but not part of the live table set (left behind)", fd.Num)
			}
		case storage.TypeJournal:
			journals++
		case storage.TypeManifest:
			if fd != fs.Meta() {
				return fmt.Sprintf("manifest %d is in storage next to the current manifest %d", fd.Num, fs.Meta().Num)
			}
		case storage.TypeTemp:
			return fmt.Sprintf("temporary file %d left in storage", fd.Num)
		}
	}
	if journals > 1 {
		return fmt.Sprintf("%d journal files in storage at rest", journals)
	}
	return ""
}

func describeFired(f []vfs.LogEntry) string {
	m := map[string]int{}
	for _, e := range f {
		m[e.Kind+"/"+e.FType]++
	}
	return fmt.Sprint(m)
}

func utilRangeE(c *ECase, op *dbm.Op, key func(int) []byte) util.Range {
	x := &XCase{Cmp: c.Cmp}
	return utilRange(x, op, key)
}

var faultKinds = []string{vfs.OpCreate, vfs.OpOpen, vfs.OpRead, vfs.OpWrite, vfs.OpWrite, vfs.OpSync, vfs.OpSync, vfs.OpClose, vfs.OpRemove, vfs.OpRename, vfs.OpSetMet}
var faultTypes = []string{"journal", "journal", "table", "table", "manifest", "manifest", "any"}

func drawECase(t *rapid.T, excluded map[string]bool) *ECase {
	c := &ECase{}
	c.Opts = gen.DrawOpts(t)
	c.Opts.DisableBackoff = true
	c.Cmp = rapid.SampledFrom([]string{"bytewise", "bytewise", "inv"}).Draw(t, "cmp")
	c.Keys = gen.DrawKeyPool(t, 3, 20)
	nk := len(c.Keys)
	kinds := []string{"put", "put", "put", "put", "put", "put", "put", "del", "del", "batch", "batch", "bigbatch", "get", "get", "scan", "seek", "compact", "reopen", "tropen", "trcommit", "trdiscard", "bigtr"}
	deep := rapid.IntRange(0, 2).Draw(t, "deep") == 0
	if deep {
		// many small tables over several levels, lots of tombstones
		c.Opts.WriteBuffer, c.Opts.TableSize, c.Opts.TotalSize, c.Opts.TotalSizeMult = 256, 512, 1024, 2
		c.Opts.L0Trigger, c.Opts.L0Slowdown, c.Opts.L0Pause = 2, 6, 8
		kinds = []string{"put", "put", "put", "put", "put", "put", "del", "del", "del", "batch", "get", "scan", "seek", "compact", "reopen", "bigtr"}
	}
	if rapid.IntRange(0, 7).Draw(t, "setro") == 0 {
		kinds = append(kinds, "setro")
	}
	og := rapid.Custom(func(t *rapid.T) dbm.Op {
		op := dbm.Op{T: rapid.SampledFrom(kinds).Draw(t, "op")}
		op.Sync = rapid.IntRange(0, 2).Draw(t, "sync") == 0
		switch op.T {
		case "put":
			op.K = rapid.IntRange(0, nk-1).Draw(t, "k")
			op.V = gen.DrawVSpec(t, "v", false, 2200)
			if rapid.IntRange(0, 39).Draw(t, "huge") == 0 {
				op.V = gen.VSpec{Len: 40000, Fill: 1} // a journal record spanning two 32 KiB blocks
			}
		case "bigtr":
			n := rapid.IntRange(4, 14).Draw(t, "trn")
			for j := 0; j < n; j++ {
				op.B = append(op.B, dbm.BOp{K: rapid.IntRange(0, nk-1).Draw(t, "bk")})
			}
		case "del", "get", "seek":
			op.K = rapid.IntRange(0, nk-1).Draw(t, "k")
		case "scan":
			op.Slot = rapid.IntRange(0, 1).Draw(t, "backward")
		case "batch":
			n := rapid.IntRange(1, 8).Draw(t, "bn")
			for j := 0; j < n; j++ {
				bo := dbm.BOp{K: rapid.IntRange(0, nk-1).Draw(t, "bk")}
				if rapid.IntRange(0, 3).Draw(t, "bdel") == 0 {
					bo.Del = true
				} else {
					bo.V = gen.DrawVSpec(t, "bv", false, 700)
				}
				op.B = append(op.B, bo)
			}
		case "bigbatch":
			op.T = "batch"
			wb := c.Opts.WriteBuffer
			if wb > 4096 {
				wb = 4096
			}
			n := rapid.IntRange(3, 5).Draw(t, "bbn")
			for j := 0; j < n; j++ {
				op.B = append(op.B, dbm.BOp{K: rapid.IntRange(0, nk-1).Draw(t, "bk"), V: gen.VSpec{Len: wb/2 + rapid.IntRange(0, 80).Draw(t, "bbx"), Fill: j % 2}})
			}
		}
		return op
	})
	span := rapid.SampledFrom([]int{8, 20, 40, 70}).Draw(t, "minops")
	maxOps := 110
	if deep {
		span, maxOps = span+60, 260
	}
	c.Ops = rapid.SliceOfN(og, span, maxOps).Draw(t, "ops")
	fg := rapid.Custom(func(t *rapid.T) vfs.Fault {
		f := vfs.Fault{Kind: rapid.SampledFrom(faultKinds).Draw(t, "fk"), FType: rapid.SampledFrom(faultTypes).Draw(t, "ft")}
		f.Nth = rapid.IntRange(1, 12).Draw(t, "nth")
		f.Count = rapid.SampledFrom([]int{1, 1, 1, 2, 5, -1}).Draw(t, "count")
		if f.Kind == vfs.OpWrite {
			f.Short = rapid.SampledFrom([]int{0, 0, 30, 99}).Draw(t, "short")
		}
		for _, ex := range []struct{ name, kind, ft string }{} {
			_ = ex
		}
		return f
	})
	c.Faults = rapid.SliceOfN(fg, 1, 3).Draw(t, "faults")
	// two structured shapes that random mixing rarely reaches
	switch rapid.SampledFrom([]string{"random", "random", "random", "random", "random", "random", "delwave", "bigjournal", "readfault",
		"random", "random", "random", "random", "random", "delwave", "bigjournal", "readfault", "random", "trfail", "trrace"}).Draw(t, "shape") {
	case "trrace":
		// two table builders at once plus an error path: rounds of puts leave table compactions running in the
		// background (table writes are slow), a transaction opened meanwhile flushes tables of its own, one table
		// write/sync fails (the compaction output or the transaction's table is dropped and the work retried), then
		// the transaction commits and more rounds follow: file numbers, table references and the tree must survive it
		c.Opts.WriteBuffer, c.Opts.TableSize, c.Opts.TotalSize, c.Opts.TotalSizeMult = 256, 512, 1024, 2
		c.Opts.L0Trigger, c.Opts.L0Slowdown, c.Opts.L0Pause = 2, 6, 8
		c.Opts.BlockSize = rapid.SampledFrom([]int{64, 128}).Draw(t, "trbs")
		c.Opts.DisableLargeBatch = false
		c.SlowTable = rapid.SampledFrom([]int{40, 100, 250}).Draw(t, "trslow")
		var ops []dbm.Op
		round := func() {
			for k := 0; k < nk; k++ {
				ops = append(ops, dbm.Op{T: "put", K: k, V: gen.VSpec{Len: rapid.SampledFrom([]int{120, 200, 260}).Draw(t, "vl"), Fill: 1}})
			}
		}
		for r := rapid.IntRange(1, 3).Draw(t, "rounds"); r > 0; r-- {
			round()
		}
		ops = append(ops, dbm.Op{T: "tropen"})
		c.ArmAt = len(ops)
		for j := rapid.IntRange(2, 8).Draw(t, "trn"); j > 0; j-- {
			ops = append(ops, dbm.Op{T: "put", K: rapid.IntRange(0, nk-1).Draw(t, "k"), V: gen.VSpec{Len: 168, Fill: j % 2}})
		}
		ops = append(ops, dbm.Op{T: rapid.SampledFrom([]string{"trcommit", "trcommit", "trdiscard"}).Draw(t, "trend")})
		c.HealAt = len(ops)
		round()
		ops = append(ops, dbm.Op{T: "compact"})
		for k := 0; k < nk; k++ {
			ops = append(ops, dbm.Op{T: "get", K: k})
		}
		ops = append(ops, dbm.Op{T: "reopen"})
		c.Ops = ops
		c.Faults = []vfs.Fault{{Kind: rapid.SampledFrom([]string{vfs.OpSync, vfs.OpWrite, vfs.OpWrite}).Draw(t, "trk"), FType: "table", Nth: rapid.IntRange(1, 40).Draw(t, "trnth"), Count: 1}}
		return finishECase(t, c)
	case "trfail":
		// a transaction with tables of its own whose Commit meets manifest failures that last
		// through all its attempts and through the Discard that follows; then ordinary use
		c.Opts.DisableLargeBatch = false
		var ops []dbm.Op
		for k := 0; k < 3 && k < nk; k++ {
			ops = append(ops, dbm.Op{T: "put", K: k, V: gen.VSpec{Len: 20}, Sync: true})
		}
		wb := c.Opts.WriteBuffer
		if wb > 4096 {
			wb = 4096
		}
		ops = append(ops, dbm.Op{T: "tropen"})
		for j := rapid.IntRange(3, 6).Draw(t, "tfn"); j > 0; j-- {
			ops = append(ops, dbm.Op{T: "put", K: rapid.IntRange(0, nk-1).Draw(t, "k"), V: gen.VSpec{Len: wb/2 + 40, Fill: j % 2}})
		}
		if len(ops)%2 == 0 {
			ops = append(ops, dbm.Op{T: "get", K: 0}) // an odd position: this failed Commit is not retried by the harness
		}
		c.ArmAt = len(ops)
		ops = append(ops, dbm.Op{T: "trcommit"})
		for j := 0; j < 3; j++ {
			ops = append(ops, dbm.Op{T: "put", K: rapid.IntRange(0, nk-1).Draw(t, "k"), V: gen.VSpec{Len: 30}, Sync: true})
		}
		ops = append(ops, dbm.Op{T: "get", K: 1}, dbm.Op{T: "compact"})
		c.HealAt = c.ArmAt + 1 + rapid.SampledFrom([]int{1, 3, 1 << 20}).Draw(t, "tfheal")
		c.Ops = ops
		c.Faults = []vfs.Fault{{Kind: rapid.SampledFrom([]string{vfs.OpSync, vfs.OpWrite, vfs.OpCreate}).Draw(t, "tfk"), FType: "manifest", Nth: 1, Count: -1}}
		return finishECase(t, c)
	case "readfault":
		// two generations of every key settled in several small tables over two or more levels
		// (the older generation deeper), cold caches after a reopen, then one or two table
		// open/read failures while the DB is scanned in both directions and read point-wise
		c.Opts.WriteBuffer, c.Opts.TableSize, c.Opts.TotalSize, c.Opts.TotalSizeMult = 512, 512, 1024, 2
		c.Opts.L0Trigger, c.Opts.L0Slowdown, c.Opts.L0Pause = 4, 8, 12
		c.Opts.BlockSize = rapid.SampledFrom([]int{64, 256}).Draw(t, "rfbs")
		c.Opts.DisableLargeBatch = true
		var ops []dbm.Op
		for r := 0; r < 2; r++ {
			for k := 0; k < nk; k++ {
				ops = append(ops, dbm.Op{T: "put", K: k, V: gen.VSpec{Len: rapid.SampledFrom([]int{90, 150, 260}).Draw(t, "vl"), Fill: 1}})
			}
			if r == 0 {
				ops = append(ops, dbm.Op{T: "compact"})
			}
		}
		ops = append(ops, dbm.Op{T: "reopen"})
		c.ArmAt = len(ops)
		for j := 0; j < 4; j++ {
			ops = append(ops, dbm.Op{T: "scan", Slot: rapid.IntRange(0, 1).Draw(t, "backward")})
			ops = append(ops, dbm.Op{T: "get", K: rapid.IntRange(0, nk-1).Draw(t, "k")})
			ops = append(ops, dbm.Op{T: "seek", K: rapid.IntRange(0, nk-1).Draw(t, "k")})
			ops = append(ops, dbm.Op{T: "seek", K: rapid.IntRange(0, nk-1).Draw(t, "k")})
		}
		c.HealAt = len(ops)
		ops = append(ops, dbm.Op{T: "scan", Slot: 1}, dbm.Op{T: "scan"})
		c.Ops = ops
		c.Faults = []vfs.Fault{{Kind: rapid.SampledFrom([]string{vfs.OpRead, vfs.OpRead, vfs.OpOpen}).Draw(t, "rfk"), FType: "table", Nth: rapid.IntRange(1, 14).Draw(t, "rfn"), Count: rapid.SampledFrom([]int{1, 1, 2}).Draw(t, "rfc")}}
		return finishECase(t, c)
	case "delwave":
		// data settled over several levels, then a wave of deletes whose compaction meets a
		// table write/sync failure and is retried
		c.Opts.WriteBuffer, c.Opts.TableSize, c.Opts.TotalSize, c.Opts.TotalSizeMult = 256, 512, 1024, 2
		c.Opts.L0Trigger, c.Opts.L0Slowdown, c.Opts.L0Pause = 2, 6, 8
		c.Opts.DisableLargeBatch = true
		var ops []dbm.Op
		rounds := rapid.IntRange(2, 4).Draw(t, "rounds")
		for r := 0; r < rounds; r++ {
			for k := 0; k < nk; k++ {
				ops = append(ops, dbm.Op{T: "put", K: k, V: gen.VSpec{Len: rapid.SampledFrom([]int{120, 200, 260}).Draw(t, "vl"), Fill: 1}})
			}
			if r%2 == 1 {
				ops = append(ops, dbm.Op{T: "compact"})
			}
		}
		c.ArmAt = len(ops)
		for k := 0; k < nk; k++ {
			if rapid.IntRange(0, 4).Draw(t, "keep") != 0 {
				ops = append(ops, dbm.Op{T: "del", K: k})
			}
		}
		ops = append(ops, dbm.Op{T: "compact"}, dbm.Op{T: "get", K: 0}, dbm.Op{T: "get", K: 1})
		c.HealAt = len(ops)
		ops = append(ops, dbm.Op{T: "reopen"})
		c.Ops = ops
		c.Faults = []vfs.Fault{{Kind: rapid.SampledFrom([]string{vfs.OpSync, vfs.OpWrite}).Draw(t, "dwk"), FType: "table", Nth: rapid.IntRange(1, 6).Draw(t, "dwn"), Count: 1}}
		return finishECase(t, c)
	case "bigjournal":
		// a journal record spanning two 32 KiB blocks is still in the journal at reopen, and
		// reading the journal fails once
		c.Opts.WriteBuffer = 65536 * 2
		var ops []dbm.Op
		for k := 0; k < 3 && k < nk; k++ {
			ops = append(ops, dbm.Op{T: "put", K: k, V: gen.VSpec{Len: 20}, Sync: true})
		}
		ops = append(ops, dbm.Op{T: "put", K: nk - 1, V: gen.VSpec{Len: rapid.SampledFrom([]int{33000, 40000, 70000}).Draw(t, "bjl"), Fill: 1}, Sync: true})
		ops = append(ops, dbm.Op{T: "put", K: 0, V: gen.VSpec{Len: 9}, Sync: true})
		c.ArmAt = len(ops)
		ops = append(ops, dbm.Op{T: "reopen"}, dbm.Op{T: "get", K: nk - 1}, dbm.Op{T: "reopen"}, dbm.Op{T: "get", K: 0})
		c.HealAt = 1 << 20
		c.Ops = ops
		c.Faults = []vfs.Fault{{Kind: vfs.OpRead, FType: "journal", Nth: rapid.IntRange(1, 5).Draw(t, "bjn"), Count: 1}}
		return finishECase(t, c)
	}
	if excluded["f9-manifest-fault-with-transaction"] {
		// open finding F9: a manifest write/sync failure during a transaction commit followed by
		// Discard leaves a manifest record that references removed tables. Workloads with
		// transactions or oversized batches get their manifest write/sync faults redirected.
		hasTr := false
		for _, op := range c.Ops {
			if op.T == "tropen" || (op.T == "batch" && len(op.B) >= 3) {
				hasTr = true
			}
		}
		if hasTr {
			for i := range c.Faults {
				f := &c.Faults[i]
				if (f.Kind == vfs.OpWrite || f.Kind == vfs.OpSync) && (f.FType == "manifest" || f.FType == "any") {
					f.FType = "table"
					c.Redirected++
				}
			}
		}
	}
	c.ArmAt = rapid.IntRange(0, len(c.Ops)/2).Draw(t, "armat")
	c.HealAt = c.ArmAt + rapid.IntRange(1, len(c.Ops)).Draw(t, "healspan")
	return finishECase(t, c)
}

func finishECase(t *rapid.T, c *ECase) *ECase {
	pa := &dbm.Profile{Prop: "C08", MinOps: 0, MaxOps: 20, DetPercent: 100,
		W: map[string]int{"put": 30, "del": 8, "batch": 6, "get": 6, "compact": 3, "reopen": 2, "scan": 2}}
	c.After = dbm.Draw(t, pa).Ops
	if rapid.IntRange(0, 3).Draw(t, "dmg") == 0 {
		c.DamageBlk = rapid.IntRange(1, 1<<20).Draw(t, "dmgblk")
		c.DamageOff = rapid.IntRange(0, 1<<20).Draw(t, "dmgoff")
	}
	return c
}

// C08: storage errors never cause wrong answers or loss of acknowledged writes.
func TestC08(t *testing.T) {
	if replayFile() != "" {
		c := &ECase{}
		if err := loadReplay(c); err != nil {
			t.Fatal(err)
		}
		for i := 0; i < envInt("VERIF_REPLAY_RUNS", 10); i++ {
			if _, err := runFaults(c); err != nil {
				t.Fatalf("replay failed: %v", err)
			}
		}
		return
	}
	rec := evid.New("C08")
	defer rec.Flush()
	rapid.Check(t, func(rt *rapid.T) {
		c := drawECase(rt, excludedSet())
		rec.Add("excluded_by_known_finding", c.Redirected)
		saveJSON("VERIF_INFLIGHT", c)
		t0 := time.Now()
		st, err := runFaults(c)
		if d := time.Since(t0); d > 2*time.Second && os.Getenv("VERIF_DEBUG") != "" {
			fmt.Printf("SLOW %.1fs hung=%v faults=%+v fired=%s\n", d.Seconds(), st.hung, c.Faults, describeFired(st.fired))
		}
		if err != nil {
			reportFail("C08", c, err)
			rt.Fatalf("C08 violated: %v", err)
		}
		var cl []string
		seen := map[string]bool{}
		for _, f := range st.fired {
			k := "fired:" + f.Kind + "-" + f.FType
			if !seen[k] {
				seen[k] = true
				cl = append(cl, k)
			}
		}
		if st.hung {
			cl = append(cl, "inconclusive-call-did-not-return")
			rec.Add("inconclusive", 1)
		}
		if st.failedWrites > 0 {
			cl = append(cl, "write-returned-error")
		}
		if st.readErrors > 0 {
			cl = append(cl, "read-returned-error")
		}
		if st.commitRetries > 0 {
			cl = append(cl, "failed-commit-retried")
		}
		if st.scansUnderFaults > 0 {
			cl = append(cl, "scan-while-faults-armed")
		}
		if c.SlowTable > 0 {
			cl = append(cl, "transaction-flush-overlapping-compaction(trrace)")
		}
		if st.damageChecked {
			cl = append(cl, "checksum-clause")
		}
		if st.damageDetected {
			cl = append(cl, "damage-reported-as-error")
		}
		nt := len(st.fired) > 0 && st.opsAfterFault > 0 && st.reopened && !st.hung
		rec.Case(evid.FP(c), nt, cl...)
		if nt && rec.WantSample() {
			rec.Sample(map[string]any{"faults": c.Faults, "armat": c.ArmAt, "healat": c.HealAt, "ops": len(c.Ops), "fired": describeFired(st.fired), "failed_writes": st.failedWrites, "opts": c.Opts})
		}
	})
}

// runFaultsFor dispatches to the fault engine of the given property.
func runFaultsFor(prop string, c *ECase) (eStats, error) {
	return runFaultsOpts(c, prop == "C09", prop == "C07" || prop == "C11")
}
