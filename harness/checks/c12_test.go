package checks

import (
	"bytes"
	"encoding/binary"
	"fmt"
	"io"
	"testing"

	"github.com/syndtr/goleveldb/leveldb/errors"
	"github.com/syndtr/goleveldb/leveldb/journal"
	"pgregory.net/rapid"

	"verif/evid"
)

const jBlock = 32 * 1024

// JCase is a journal case: records (length + write split + flush flag) and a damage spec.
type JCase struct {
	Recs   []JRec `json:"recs"`
	Damage JDam   `json:"damage"`
}

// JRec is one record.
type JRec struct {
	Len   int  `json:"len"`
	Split int  `json:"split,omitempty"` // write the record in pieces of this size (0 = one Write)
	Flush bool `json:"flush,omitempty"` // Flush after this record
}

// JDam is a damage spec.
type JDam struct {
	Kind  string `json:"kind"` // none|trunc|flip|zero
	Off   []int  `json:"off,omitempty"`
	Bits  []int  `json:"bits,omitempty"`
	Count int    `json:"count,omitempty"`
	AtRec *int   `json:"atrec,omitempty"` // flip/zero/trunc: offsets are taken relative to the first chunk header of this record (mod count), modulo 16
}

func recBytes(i, n int) []byte {
	if i%4 == 3 && n >= 64 && i < 1000 {
		// a payload that is itself a well-formed journal stream of small records: a reader that
		// loses its framing inside it yields records that were never written
		var inner bytes.Buffer
		w := journal.NewWriter(&inner)
		for j := 0; inner.Len() < n; j++ {
			ww, _ := w.Next()
			ww.Write([]byte(fmt.Sprintf("embedded-%d-%d", i, j)))
			w.Flush()
		}
		w.Close()
		b := inner.Bytes()[:n]
		return b
	}
	b := make([]byte, n)
	h := uint32(i*2654435761 + 12345)
	for j := range b {
		h = h*1664525 + 1013904223
		b[j] = byte(h >> 24)
	}
	if n >= 4 {
		binary.LittleEndian.PutUint32(b, uint32(i)) // record identity
	}
	return b
}

type jExtent struct{ start, end int } // byte extent [start,end) of all chunks of a record

// parseJournal is the checker's own reading of an undamaged stream: it
// returns, per record, the extent of its chunks.
func parseJournal(s []byte) ([]jExtent, error) {
	var out []jExtent
	p := 0
	in := false
	var cur jExtent
	for p < len(s) {
		left := jBlock - p%jBlock
		if left < 7 {
			p += left
			continue
		}
		if p+7 > len(s) {
			break
		}
		length := int(binary.LittleEndian.Uint16(s[p+4 : p+6]))
		typ := s[p+6]
		if typ == 0 && length == 0 {
			return nil, fmt.Errorf("zero header at %d", p)
		}
		end := p + 7 + length
		if end > len(s) || length > left-7 {
			return nil, fmt.Errorf("chunk at %d overflows", p)
		}
		switch typ {
		case 1:
			out = append(out, jExtent{p, end})
		case 2:
			in, cur = true, jExtent{p, end}
		case 3:
			if !in {
				return nil, fmt.Errorf("orphan middle at %d", p)
			}
			cur.end = end
		case 4:
			if !in {
				return nil, fmt.Errorf("orphan last at %d", p)
			}
			cur.end = end
			out = append(out, cur)
			in = false
		default:
			return nil, fmt.Errorf("bad type %d at %d", typ, p)
		}
		p = end
	}
	if in {
		return nil, fmt.Errorf("unterminated record")
	}
	return out, nil
}

type jResult struct {
	resetDiff  string
	recs       [][]byte
	broken     int
	strictErr  error
	otherErr   error
	cleanEOF   bool
	panicValue any
}

// readJournal reads the stream twice: with a fresh reader and with a reader
// that was used on another stream first (opposite strictness, checksums off,
// left at a position that depends on the stream) and then Reset onto this one
// - the way DB recovery walks several journal files. Reset's contract is that
// the reader starts over with the new settings, so both readings must agree;
// a disagreement is reported in resetDiff.
func readJournal(stream []byte, strict bool) (res jResult) {
	res = readJournalVia(stream, strict, false)
	via := readJournalVia(stream, strict, true)
	switch {
	case (res.panicValue == nil) != (via.panicValue == nil):
		res.resetDiff = fmt.Sprintf("panic %v vs %v", res.panicValue, via.panicValue)
	case len(res.recs) != len(via.recs):
		res.resetDiff = fmt.Sprintf("%d records vs %d", len(res.recs), len(via.recs))
	case res.broken != via.broken || res.cleanEOF != via.cleanEOF || (res.strictErr == nil) != (via.strictErr == nil) || (res.otherErr == nil) != (via.otherErr == nil):
		res.resetDiff = fmt.Sprintf("broken %d vs %d, clean end %v vs %v, corruption error %v vs %v, other error %v vs %v",
			res.broken, via.broken, res.cleanEOF, via.cleanEOF, res.strictErr, via.strictErr, res.otherErr, via.otherErr)
	default:
		for i := range res.recs {
			if !bytes.Equal(res.recs[i], via.recs[i]) {
				res.resetDiff = fmt.Sprintf("record #%d differs", i)
				break
			}
		}
	}
	return res
}

var jPreStream = func() []byte {
	var b bytes.Buffer
	w := journal.NewWriter(&b)
	for _, n := range []int{300, 40000, 10} {
		ww, _ := w.Next()
		ww.Write(recBytes(n, n))
	}
	w.Close()
	return b.Bytes()[:len(b.Bytes())-5] // torn last record
}()

func readJournalVia(stream []byte, strict bool, reset bool) (res jResult) {
	defer func() {
		if x := recover(); x != nil {
			res.panicValue = x
		}
	}()
	var jr *journal.Reader
	if !reset {
		jr = journal.NewReader(bytes.NewReader(stream), nil, strict, true)
	} else {
		jr = journal.NewReader(bytes.NewReader(jPreStream), nil, !strict, false)
		for k := 0; k < len(stream)%4; k++ { // 0-3 records of the other stream (the third is torn)
			rd, err := jr.Next()
			if err != nil {
				break
			}
			if k == 1 {
				io.CopyN(io.Discard, rd, 20000) // leave the reader in the middle of a spanning record
			} else {
				io.Copy(io.Discard, rd)
			}
		}
		jr.Reset(bytes.NewReader(stream), nil, strict, true)
	}
	for n := 0; n < 1<<20; n++ {
		rd, err := jr.Next()
		if err == io.EOF {
			res.cleanEOF = true
			return
		}
		if err != nil {
			if errors.IsCorrupted(err) {
				res.strictErr = err
			} else {
				res.otherErr = err
			}
			return
		}
		b, err := io.ReadAll(rd)
		if err == nil {
			res.recs = append(res.recs, b)
			continue
		}
		if err == io.ErrUnexpectedEOF && !strict {
			res.broken++
			continue
		}
		if errors.IsCorrupted(err) {
			res.strictErr = err
		} else {
			res.otherErr = err
		}
		if strict {
			return
		}
	}
	return
}

type jStats struct {
	spanning, nearEnd, headerDamage bool
	blocks                          int
}

// runJournal executes a journal case against the oracle.
func runJournal(c *JCase) (st jStats, err error) {
	orig := make([][]byte, len(c.Recs))
	for i, r := range c.Recs {
		orig[i] = recBytes(i, r.Len)
	}
	// writeAll writes the case's records through w (whose output goes to out) and closes it
	writeAll := func(w *journal.Writer, out *bytes.Buffer) error {
		for i, r := range c.Recs {
			ww, werr := w.Next()
			if werr != nil {
				return fmt.Errorf("writer.Next: %v", werr)
			}
			if r.Split <= 0 {
				if _, werr = ww.Write(orig[i]); werr != nil {
					return fmt.Errorf("write: %v", werr)
				}
			} else {
				for p := 0; p < len(orig[i]); p += r.Split {
					e := p + r.Split
					if e > len(orig[i]) {
						e = len(orig[i])
					}
					if _, werr = ww.Write(orig[i][p:e]); werr != nil {
						return fmt.Errorf("write: %v", werr)
					}
				}
			}
			if r.Flush {
				if werr = w.Flush(); werr != nil {
					return fmt.Errorf("flush: %v", werr)
				}
				if int64(out.Len()) != w.Size() {
					return fmt.Errorf("after Flush of record %d the writer reports Size()=%d, %d bytes reached the output", i, w.Size(), out.Len())
				}
			}
		}
		if cerr := w.Close(); cerr != nil {
			return fmt.Errorf("close: %v", cerr)
		}
		return nil
	}
	var buf bytes.Buffer
	if werr := writeAll(journal.NewWriter(&buf), &buf); werr != nil {
		return st, werr
	}
	// a writer that was used on another output first (left after 0-2 records, the last one not
	// flushed) and then Reset onto a new output - the way the DB rotates its journal - must
	// produce the same bytes as a fresh writer, and must have completed what it owed the old output
	{
		var pre, buf2 bytes.Buffer
		w2 := journal.NewWriter(&pre)
		npre := len(c.Recs) % 3
		for k := 0; k < npre; k++ {
			ww, _ := w2.Next()
			ww.Write(recBytes(1000+k, 10+k*40000))
		}
		if rerr := w2.Reset(&buf2); rerr != nil {
			return st, fmt.Errorf("writer.Reset: %v", rerr)
		}
		if werr := writeAll(w2, &buf2); werr != nil {
			return st, fmt.Errorf("writer reused through Reset: %v", werr)
		}
		if !bytes.Equal(buf2.Bytes(), buf.Bytes()) {
			return st, fmt.Errorf("a writer reused through Reset produced %d bytes that differ from the %d bytes of a fresh writer for the same records", buf2.Len(), buf.Len())
		}
		pext, perr := parseJournal(pre.Bytes())
		if perr != nil || len(pext) != npre {
			return st, fmt.Errorf("the output a writer was Reset away from holds %d well-formed records (%v), %d were written", len(pext), perr, npre)
		}
	}
	stream := buf.Bytes()
	st.blocks = (len(stream) + jBlock - 1) / jBlock
	ext, perr := parseJournal(stream)
	if perr != nil {
		return st, fmt.Errorf("written stream is not well-formed by the checker's own parser: %v", perr)
	}
	if len(ext) != len(orig) {
		return st, fmt.Errorf("written stream holds %d records by the checker's own parser, %d were written", len(ext), len(orig))
	}
	for _, e := range ext {
		if e.start/jBlock != (e.end-1)/jBlock {
			st.spanning = true
		}
		if r := jBlock - e.end%jBlock; e.end%jBlock != 0 && r <= 7 {
			st.nearEnd = true
		}
	}
	// round-trip without damage, both modes
	for _, strict := range []bool{false, true} {
		res := readJournal(stream, strict)
		if res.resetDiff != "" {
			return st, fmt.Errorf("undamaged stream (strict=%v): a reader reused through Reset disagrees with a fresh reader: %s", strict, res.resetDiff)
		}
		if res.panicValue != nil {
			return st, fmt.Errorf("reader panicked on an undamaged stream: %v", res.panicValue)
		}
		if res.strictErr != nil || res.otherErr != nil || res.broken > 0 || !res.cleanEOF {
			return st, fmt.Errorf("undamaged stream (strict=%v): errors %v %v broken=%d", strict, res.strictErr, res.otherErr, res.broken)
		}
		if len(res.recs) != len(orig) {
			return st, fmt.Errorf("undamaged stream (strict=%v): read %d records, wrote %d", strict, len(res.recs), len(orig))
		}
		for i := range orig {
			if !bytes.Equal(res.recs[i], orig[i]) {
				return st, fmt.Errorf("undamaged stream (strict=%v): record %d differs (len %d vs %d)", strict, i, len(res.recs[i]), len(orig[i]))
			}
		}
	}
	if c.Damage.Kind == "none" || c.Damage.Kind == "" || len(stream) == 0 {
		return st, nil
	}
	// apply damage
	if c.Damage.AtRec != nil && len(ext) > 0 {
		base := ext[*c.Damage.AtRec%len(ext)].start
		rel := append([]int(nil), c.Damage.Off...)
		for i := range rel {
			rel[i] = base + rel[i]%16
		}
		d := c.Damage
		d.Off = rel
		c = &JCase{Recs: c.Recs, Damage: d}
	}
	dmg := append([]byte(nil), stream...)
	damagedBlock := map[int]bool{}
	cut := -1
	switch c.Damage.Kind {
	case "trunc":
		cut = c.Damage.Off[0] % (len(stream) + 1)
		dmg = dmg[:cut]
		for b := cut / jBlock; b <= st.blocks; b++ {
			damagedBlock[b] = true
		}
	case "flip":
		for i, o := range c.Damage.Off {
			o %= len(stream)
			bit := byte(1)
			if i < len(c.Damage.Bits) {
				bit = byte(1) << (uint(c.Damage.Bits[i]) % 8)
				if c.Damage.Bits[i] >= 8 {
					bit = 0xff
				}
			}
			dmg[o] ^= bit
			damagedBlock[o/jBlock] = true
		}
	case "zero":
		o := c.Damage.Off[0] % len(stream)
		n := c.Damage.Count
		for i := o; i < o+n && i < len(dmg); i++ {
			if dmg[i] != 0 {
				damagedBlock[i/jBlock] = true
			}
			dmg[i] = 0
		}
	default:
		return st, fmt.Errorf("unknown damage kind %q", c.Damage.Kind)
	}
	if bytes.Equal(dmg, stream) {
		return st, nil
	}
	for _, e := range ext {
		for _, o := range c.Damage.Off {
			if c.Damage.Kind == "flip" {
				o %= len(stream)
				// is o inside a chunk header of this record?
				for p := e.start; p < e.end; {
					if jBlock-p%jBlock < 7 {
						p += jBlock - p%jBlock
						continue
					}
					l := int(binary.LittleEndian.Uint16(stream[p+4 : p+6]))
					if o >= p && o < p+7 {
						st.headerDamage = true
					}
					p += 7 + l
				}
			}
		}
	}
	mustYield := func(e jExtent) bool {
		for b := e.start / jBlock; b <= (e.end-1)/jBlock; b++ {
			if damagedBlock[b] {
				return false
			}
		}
		return true
	}
	identify := func(b []byte) int {
		// records carry their index in the first four bytes when long enough
		for i := range orig {
			if bytes.Equal(orig[i], b) {
				return i
			}
		}
		return -1
	}
	for _, strict := range []bool{false, true} {
		res := readJournal(dmg, strict)
		if res.resetDiff != "" {
			return st, fmt.Errorf("damaged stream (strict=%v): a reader reused through Reset disagrees with a fresh reader: %s", strict, res.resetDiff)
		}
		if res.panicValue != nil {
			return st, fmt.Errorf("reader (strict=%v) panicked on a damaged stream: %v", strict, res.panicValue)
		}
		if res.otherErr != nil {
			return st, fmt.Errorf("reader (strict=%v) returned a non-corruption error: %v", strict, res.otherErr)
		}
		// every yielded record is an original; the yielded list is a subsequence in order
		next := 0
		for n, b := range res.recs {
			found := -1
			for i := next; i < len(orig); i++ {
				if bytes.Equal(orig[i], b) {
					found = i
					break
				}
			}
			if found < 0 {
				if j := identify(b); j >= 0 {
					return st, fmt.Errorf("strict=%v: yielded record #%d is original %d out of order (expected index >= %d)", strict, n, j, next)
				}
				return st, fmt.Errorf("strict=%v: yielded record #%d (%d bytes) was never written", strict, n, len(b))
			}
			next = found + 1
		}
		if !strict {
			// the records none of whose blocks was damaged must form a subsequence of the yielded list
			pos := 0
			for i, e := range ext {
				if !mustYield(e) {
					continue
				}
				found := false
				for pos < len(res.recs) {
					if bytes.Equal(res.recs[pos], orig[i]) {
						found = true
						pos++
						break
					}
					pos++
				}
				if !found {
					return st, fmt.Errorf("tolerant mode lost record %d [%d,%d) although none of its blocks was damaged (damage %+v)", i, e.start, e.end, c.Damage)
				}
			}
			continue
		}
		// strict: exactly a prefix of the originals, and corruption must be reported when a
		// record whose first header is completely present is not delivered.
		for i := range res.recs {
			if i >= len(orig) || !bytes.Equal(res.recs[i], orig[i]) {
				return st, fmt.Errorf("strict mode: delivered record #%d is not original #%d (not a prefix)", i, i)
			}
		}
		if len(res.recs) < len(orig) && res.strictErr == nil {
			e := ext[len(res.recs)]
			headerPresent := cut < 0 || e.start+7 <= cut
			if headerPresent {
				return st, fmt.Errorf("strict mode delivered only %d of %d records and ended without a corruption error (next record at [%d,%d), damage %+v)", len(res.recs), len(orig), e.start, e.end, c.Damage)
			}
		}
	}
	return st, nil
}

func drawJCase(t *rapid.T) *JCase {
	c := &JCase{}
	recGen := rapid.Custom(func(t *rapid.T) JRec {
		var r JRec
		switch rapid.IntRange(0, 11).Draw(t, "lk") {
		case 0:
			r.Len = 0
		case 1, 2, 3:
			r.Len = rapid.IntRange(1, 40).Draw(t, "len")
		case 4, 5:
			r.Len = rapid.IntRange(41, 4000).Draw(t, "len")
		case 6:
			r.Len = jBlock - 7 - rapid.IntRange(0, 16).Draw(t, "d") // around one block of payload
		case 7:
			r.Len = jBlock + rapid.IntRange(-20, 20).Draw(t, "d")
		case 8:
			r.Len = rapid.IntRange(2*jBlock-30, 3*jBlock+30).Draw(t, "len")
		case 9:
			r.Len = -1 - rapid.IntRange(0, 8).Draw(t, "left") // resolved below: leave 0..8 bytes at the block end
		default:
			r.Len = -20 - rapid.IntRange(0, 40).Draw(t, "left")
		}
		if rapid.IntRange(0, 4).Draw(t, "sp") == 0 {
			r.Split = rapid.SampledFrom([]int{1, 7, 100, 1000, jBlock}).Draw(t, "split")
		}
		r.Flush = rapid.IntRange(0, 3).Draw(t, "fl") == 0
		return r
	})
	c.Recs = rapid.SliceOfN(recGen, 1, 14).Draw(t, "recs")
	// resolve "leave k bytes at the block end" lengths by simulating the layout
	p := 0
	for i := range c.Recs {
		left := jBlock - p%jBlock
		if left < 7 {
			p += left
			left = jBlock
		}
		if c.Recs[i].Len < 0 {
			want := -c.Recs[i].Len - 1
			if want > 8 {
				want = -c.Recs[i].Len - 20 + 9
			}
			n := left - 7 - want
			if n < 0 {
				n += jBlock - 7
			}
			c.Recs[i].Len = n
		}
		if c.Recs[i].Split == 1 && c.Recs[i].Len > 3000 {
			c.Recs[i].Split = 7
		}
		// advance p over the chunks of this record
		n := c.Recs[i].Len
		for {
			left = jBlock - p%jBlock
			if left < 7 {
				p += left
				continue
			}
			take := left - 7
			if take > n {
				take = n
			}
			p += 7 + take
			n -= take
			if n == 0 {
				break
			}
		}
	}
	total := p
	if total == 0 {
		total = 1
	}
	offGen := rapid.Custom(func(t *rapid.T) int {
		switch rapid.IntRange(0, 3).Draw(t, "ok") {
		case 0: // near a block boundary
			b := rapid.IntRange(0, total/jBlock+1).Draw(t, "blk")
			o := b*jBlock + rapid.IntRange(-12, 12).Draw(t, "bo")
			if o < 0 {
				o = 0
			}
			return o
		default:
			return rapid.IntRange(0, total).Draw(t, "off")
		}
	})
	switch rapid.IntRange(0, 9).Draw(t, "dk") {
	case 0:
		c.Damage.Kind = "none"
	case 1, 2, 3:
		c.Damage.Kind = "trunc"
		c.Damage.Off = []int{offGen.Draw(t, "cut")}
	case 4, 5, 6, 7:
		c.Damage.Kind = "flip"
		n := rapid.IntRange(1, 3).Draw(t, "nf")
		for i := 0; i < n; i++ {
			c.Damage.Off = append(c.Damage.Off, offGen.Draw(t, "fo"))
			c.Damage.Bits = append(c.Damage.Bits, rapid.IntRange(0, 8).Draw(t, "bit"))
		}
	default:
		c.Damage.Kind = "zero"
		c.Damage.Off = []int{offGen.Draw(t, "zo")}
		c.Damage.Count = rapid.SampledFrom([]int{1, 7, 8, 100, jBlock}).Draw(t, "zn")
	}
	if c.Damage.Kind != "none" && len(c.Recs) > 0 && rapid.IntRange(0, 2).Draw(t, "atrec") == 0 {
		// aim at the chunk header of a record (offsets 0-15 from its first byte)
		r := rapid.IntRange(0, len(c.Recs)-1).Draw(t, "atrecn")
		c.Damage.AtRec = &r
		if rapid.Bool().Draw(t, "atrec0") {
			for i := range c.Damage.Off {
				c.Damage.Off[i] = i * 3 // 0, 3, 6: checksum, checksum, type byte
			}
		}
	}
	return c
}

func jClassify(c *JCase, st jStats) (bool, []string) {
	var cl []string
	cl = append(cl, "damage-"+c.Damage.Kind)
	if st.spanning {
		cl = append(cl, "record-spans-blocks")
	}
	if st.nearEnd {
		cl = append(cl, "record-ends-within-7-of-block-end")
	}
	if st.headerDamage {
		cl = append(cl, "damage-in-header")
	}
	return (st.spanning && st.nearEnd) || st.headerDamage, cl
}

// C12: journal framing round-trips and contains damage.
func TestC12(t *testing.T) {
	if replayFile() != "" {
		c := &JCase{}
		if err := loadReplay(c); err != nil {
			t.Fatal(err)
		}
		if _, err := runJournal(c); err != nil {
			t.Fatalf("replay failed: %v", err)
		}
		return
	}
	rec := evid.New("C12")
	defer rec.Flush()
	rapid.Check(t, func(rt *rapid.T) {
		c := drawJCase(rt)
		st, err := runJournal(c)
		if err != nil {
			reportFail("C12", c, err)
			rt.Fatalf("C12 violated: %v", err)
		}
		nt, cl := jClassify(c, st)
		rec.Case(evid.FP(c), nt, cl...)
		if nt && rec.WantSample() {
			rec.Sample(c)
		}
	})
}

// decodeJCase turns fuzzer bytes into a journal case.
func decodeJCase(data []byte) *JCase {
	c := &JCase{}
	p := 0
	next := func() int {
		if p >= len(data) {
			return 0
		}
		v := int(data[p])
		p++
		return v
	}
	n := next()%10 + 1
	for i := 0; i < n; i++ {
		var r JRec
		k := next()
		switch k % 6 {
		case 0:
			r.Len = next() % 50
		case 1:
			r.Len = next()*256 + next()
		case 2:
			r.Len = jBlock - 7 - next()%20
		case 3:
			r.Len = jBlock + next()%40 - 20
		case 4:
			r.Len = 2*jBlock + next()*200
		default:
			r.Len = 0
		}
		if k&0x40 != 0 {
			r.Split = []int{1, 7, 100, 1000}[next()%4]
			if r.Split == 1 && r.Len > 3000 {
				r.Split = 7
			}
		}
		r.Flush = k&0x80 != 0
		c.Recs = append(c.Recs, r)
	}
	off := func() int { return next()<<16 | next()<<8 | next() }
	switch next() % 4 {
	case 0:
		c.Damage.Kind = "none"
	case 1:
		c.Damage.Kind = "trunc"
		c.Damage.Off = []int{off()}
	case 2:
		c.Damage.Kind = "flip"
		m := next()%3 + 1
		for i := 0; i < m; i++ {
			c.Damage.Off = append(c.Damage.Off, off())
			c.Damage.Bits = append(c.Damage.Bits, next()%9)
		}
	default:
		c.Damage.Kind = "zero"
		c.Damage.Off = []int{off()}
		c.Damage.Count = next()*16 + 1
	}
	return c
}

// FuzzC12 is the native fuzz target (thorough tier).
func FuzzC12(f *testing.F) {
	f.Add([]byte{3, 0, 10, 1, 200, 100, 2, 5, 1, 0, 0x7f, 0xf9})
	f.Add([]byte{2, 0x82, 3, 0x44, 1, 2, 2, 0, 0x80, 0x03, 8})
	f.Add([]byte{5, 3, 19, 3, 1, 2, 0, 4, 1, 3, 1, 0, 0, 9})
	f.Fuzz(func(t *testing.T, data []byte) {
		c := decodeJCase(data)
		if _, err := runJournal(c); err != nil {
			t.Fatalf("C12 violated: %v (case %+v)", err, c)
		}
	})
}
