package checks

import (
	"bytes"
	"fmt"
	"testing"

	"github.com/syndtr/goleveldb/leveldb/filter"
	"github.com/syndtr/goleveldb/leveldb/util"
	"pgregory.net/rapid"

	"verif/dbm"
	"verif/evid"
	"verif/gen"
)

// FCase is a filter case: a key set and a bits-per-key setting; or a table
// case with a filter; or a DB program replayed under several filter settings.
type FCase struct {
	Kind string `json:"kind"` // set|table|db
	// set
	Bits  int       `json:"bits,omitempty"`
	Keys  []gen.Hex `json:"keys,omitempty"`
	SeqN  int       `json:"seqn,omitempty"` // plus SeqN generated keys
	SeqK  int       `json:"seqk,omitempty"` // generator of the sequential family
	Parts int       `json:"parts,omitempty"`
	Table *TCase    `json:"table,omitempty"`
	DB    *dbm.Case `json:"db,omitempty"`
}

func seqKey(kind, i int) []byte {
	switch kind % 4 {
	case 0:
		return []byte(fmt.Sprintf("key%08d", i))
	case 1:
		return []byte(fmt.Sprintf("%d", i))
	case 2:
		b := bytes.Repeat([]byte{0xff}, i%37)
		return append(b, byte(i), byte(i>>8))
	default:
		h := uint32(i) * 2654435761
		return []byte{byte(h), byte(h >> 8), byte(h >> 16), byte(h >> 24), byte(i)}
	}
}

var dbFilterConfigs = [][]string{{"none"}, {"bloom1"}, {"bloom10"}, {"bloom64"}, {"hashset"},
	{"bloom10", "none", "hashset", "bloom1", "bloom64"}, {"hashset", "bloom64", "none"}}

func runFilter(c *FCase) (classes []string, err error) {
	defer func() {
		if x := recover(); x != nil {
			err = fmt.Errorf("panic: %v", x)
		}
	}()
	switch c.Kind {
	case "set":
		f := filter.NewBloomFilter(c.Bits)
		g := f.NewGenerator()
		var keys [][]byte
		for _, k := range c.Keys {
			keys = append(keys, []byte(k))
		}
		for i := 0; i < c.SeqN; i++ {
			keys = append(keys, seqKey(c.SeqK, i))
		}
		// several consecutive filters from one generator (as the table writer does)
		parts := c.Parts
		if parts < 1 {
			parts = 1
		}
		per := (len(keys) + parts - 1) / parts
		for p := 0; p < parts; p++ {
			lo, hi := p*per, (p+1)*per
			if lo > len(keys) {
				lo = len(keys)
			}
			if hi > len(keys) {
				hi = len(keys)
			}
			for _, k := range keys[lo:hi] {
				kk := append([]byte{}, k...)
				g.Add(kk)
				for j := range kk {
					kk[j] ^= 0x5a // the generator must not keep a reference to the key
				}
			}
			var buf util.Buffer
			g.Generate(&buf)
			fb := buf.Bytes()
			for _, k := range keys[lo:hi] {
				if !f.Contains(fb, k) {
					return nil, fmt.Errorf("bloom(%d): key %q was added to a filter of %d keys (part %d/%d) but Contains says no", c.Bits, k, hi-lo, p, parts)
				}
			}
		}
		if len(keys) >= 1000 {
			classes = append(classes, "set>=1000")
		}
		if parts > 1 {
			classes = append(classes, "generator-reused")
		}
		classes = append(classes, "set")
	case "table":
		st, err := runTable(c.Table)
		if err != nil {
			return nil, fmt.Errorf("table with filter: %v", err)
		}
		classes = append(classes, "table")
		if st.filterParts >= 3 {
			classes = append(classes, "table-filter-partitions>=3")
		}
	case "db":
		reads := 0
		for _, cfg := range dbFilterConfigs {
			cc := *c.DB
			cc.FilterCycle = cfg
			st, err := dbm.Run(&cc)
			if err != nil {
				return nil, fmt.Errorf("DB program under filter configuration %v: %v", cfg, err)
			}
			reads += st.ReadsAfterComp
		}
		classes = append(classes, "db")
		if reads > 0 {
			classes = append(classes, "db-reads-reached-tables")
		}
	}
	return classes, nil
}

func drawFCase(t *rapid.T) *FCase {
	c := &FCase{}
	switch rapid.SampledFrom([]int{0, 0, 0, 1, 1, 2}).Draw(t, "kind") {
	case 0:
		c.Kind = "set"
		c.Bits = rapid.SampledFrom([]int{1, 2, 5, 10, 10, 16, 33, 64}).Draw(t, "bits")
		c.Keys = gen.DrawKeyPool(t, 0, 30)
		c.SeqN = rapid.SampledFrom([]int{0, 1, 7, 100, 1000, 10000}).Draw(t, "seqn")
		c.SeqK = rapid.IntRange(0, 3).Draw(t, "seqk")
		c.Parts = rapid.SampledFrom([]int{1, 1, 2, 5}).Draw(t, "parts")
	case 1:
		c.Kind = "table"
		c.Table = drawTCase(t)
		c.Table.Internal = false
		c.Table.FilterBits = rapid.SampledFrom([]int{1, 10, 64}).Draw(t, "tfb")
		c.Table.FilterBase = rapid.SampledFrom([]int{5, 6, 8, 11, 14}).Draw(t, "tfbase")
		c.Table.DamageOff = -1
		if c.Table.SeqN > 300 {
			c.Table.SeqN = 300
		}
	default:
		c.Kind = "db"
		p := &dbm.Profile{Prop: "C16", MinOps: 20, MaxOps: 120, DetPercent: 100,
			W: map[string]int{"put": 30, "del": 10, "batch": 8, "bigbatch": 1, "get": 12, "compact": 4, "reopen": 5, "idle": 2, "scan": 3, "snap": 4, "snapget": 8, "snaprel": 1}}
		c.DB = dbm.Draw(t, p)
	}
	return c
}

// C16: filters never hide a stored key; they change cost, not results.
func TestC16(t *testing.T) {
	if replayFile() != "" {
		c := &FCase{}
		if err := loadReplay(c); err != nil {
			t.Fatal(err)
		}
		if _, err := runFilter(c); err != nil {
			t.Fatalf("replay failed: %v", err)
		}
		return
	}
	rec := evid.New("C16")
	defer rec.Flush()
	rapid.Check(t, func(rt *rapid.T) {
		c := drawFCase(rt)
		cl, err := runFilter(c)
		if err != nil {
			reportFail("C16", c, err)
			rt.Fatalf("C16 violated: %v", err)
		}
		nt := false
		for _, x := range cl {
			if x == "table-filter-partitions>=3" || x == "db-reads-reached-tables" || x == "set>=1000" || x == "generator-reused" {
				nt = true
			}
		}
		rec.Case(evid.FP(c), nt, cl...)
		if nt && rec.WantSample() && c.Kind != "set" {
			rec.Sample(c)
		}
	})
}

// FuzzC16 feeds arbitrary key material to the bloom generator.
func FuzzC16(f *testing.F) {
	f.Add([]byte{10, 3, 'a', 'b', 'c', 0, 0xff, 0xff, 1})
	f.Add([]byte{1, 1, 0})
	f.Fuzz(func(t *testing.T, data []byte) {
		if len(data) < 2 {
			return
		}
		bits := int(data[0])%64 + 1
		klen := int(data[1])%9 + 1
		fl := filter.NewBloomFilter(bits)
		g := fl.NewGenerator()
		var keys [][]byte
		for p := 2; p < len(data); p += klen {
			e := p + klen
			if e > len(data) {
				e = len(data)
			}
			keys = append(keys, data[p:e])
			g.Add(data[p:e])
		}
		var buf util.Buffer
		g.Generate(&buf)
		for _, k := range keys {
			if !fl.Contains(buf.Bytes(), k) {
				t.Fatalf("bloom(%d): added key %q not contained", bits, k)
			}
		}
	})
}
