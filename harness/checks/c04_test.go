package checks

import (
	"bytes"
	"fmt"
	"sync"
	"testing"
	"time"

	"github.com/syndtr/goleveldb/leveldb"
	"github.com/syndtr/goleveldb/leveldb/opt"
	"github.com/syndtr/goleveldb/leveldb/storage"
	"pgregory.net/rapid"

	"verif/dbm"
	"verif/evid"
	"verif/gen"
	"verif/model"
	"verif/vfs"
)

// XCase is a crash case.
type XCase struct {
	Opts     gen.OptSpec `json:"opts"`
	Cmp      string      `json:"cmp"`
	Keys     []gen.Hex   `json:"keys"`
	Ops      []dbm.Op    `json:"ops"`               // put del batch compact reopen idle tropen trcommit trdiscard burst
	CrashAt  int         `json:"crashat"`           // image taken just before the CrashAt-th mutating storage operation (counted from before the first Open)
	TailSeed uint64      `json:"tailseed"`          // decides, per file, how much of the unsynced tail survives
	TailAlg  int         `json:"tailalg,omitempty"` // 0: five tail modes; 1: adds cuts at an arbitrary byte or at page / journal-block boundaries, followed by zeros up to the old length
	Nested   []int       `json:"nested,omitempty"`
	After    []dbm.Op    `json:"after,omitempty"`
	All      bool        `json:"all,omitempty"`      // thorough: enumerate every crash instant of this history
	BurstMix bool        `json:"burstmix,omitempty"` // every other writer of a burst uses DB.Write with a two-record batch (else all use Put)
}

func tailMode(seed uint64, alg int) vfs.TailMode {
	return func(fd storage.FileDesc, synced, n int) (int, []byte) {
		h := seed ^ uint64(fd.Num)*0x9e3779b97f4a7c15 ^ uint64(fd.Type)<<56
		h ^= h >> 29
		h *= 0xbf58476d1ce4e5b9
		h ^= h >> 32
		if n <= synced {
			return n, nil
		}
		cut := synced + int((h>>8)%uint64(n-synced+1))
		if alg == 1 {
			// "the length made it to disk, some data pages did not": the tail is cut at a page
			// boundary (4 KiB) or at a journal block boundary (32 KiB) inside the unsynced part
			// and followed by zeros up to the old length. Still "cut and followed by zero bytes".
			switch m := h % 9; m {
			case 8:
				return cut, make([]byte, n-cut) // cut at an arbitrary byte, zeros up to the old length
			case 5, 6, 7:
				unit := 4096
				if m != 5 {
					unit = 32768
				}
				b := cut / unit * unit
				if m == 7 {
					b = n / unit * unit // the last boundary
				}
				if b < synced || b == 0 {
					b = cut
				}
				return b, make([]byte, n-b)
			default:
				h = h/9*5 + m
			}
		}
		switch h % 5 {
		case 0:
			return synced, nil // unsynced tail lost
		case 1:
			return n, nil // unsynced tail kept
		case 2:
			return cut, nil // cut at an arbitrary byte
		case 3:
			return cut, make([]byte, int((h>>20)%96)) // cut + zeros
		default:
			junk := make([]byte, int((h>>20)%96))
			x := h
			for i := range junk {
				x = x*6364136223846793005 + 1442695040888963407
				junk[i] = byte(x >> 33)
			}
			return cut, junk // cut + garbage
		}
	}
}

type xStats struct {
	crashed, creationSkipped, atEnd bool
	crashOp                         vfs.LogEntry
	torn                            int
	mandatory, issued               int
	nested                          int
	storageOps                      int
}

// runHistory drives the workload until the crash instant has passed (or the
// history ends) and returns the issued batches.
func (c *XCase) runHistory(fs *vfs.FS, o *opt.Options, st *xStats) (issued []*model.Batch, err error) {
	key := func(i int) []byte {
		if len(c.Keys) == 0 {
			return []byte("k")
		}
		return append([]byte{}, c.Keys[i%len(c.Keys)]...)
	}
	db, err := leveldb.Open(fs, o)
	if err != nil {
		if fs.Crashed() {
			return nil, nil
		}
		return nil, fmt.Errorf("Open on a fresh storage: %v", err)
	}
	defer func() {
		done := make(chan struct{})
		go func() { db.Close(); close(done) }()
		select {
		case <-done:
		case <-time.After(30 * time.Second):
			if err == nil {
				err = fmt.Errorf("Close did not return within 30s after the workload\n%s", goroutineDump())
			}
		}
	}()
	var tr *leveldb.Transaction
	var trBatch *model.Batch
	nextID := 0
	newBatch := func() *model.Batch { nextID++; return &model.Batch{ID: nextID} }
	for i := range c.Ops {
		if fs.Crashed() {
			break
		}
		op := &c.Ops[i]
		tag := func(j int) string { return fmt.Sprintf("%d.%d", i, j) }
		wo := &opt.WriteOptions{Sync: op.Sync, NoWriteMerge: op.NoMerge}
		switch op.T {
		case "put", "del", "batch":
			b := newBatch()
			lb := new(leveldb.Batch)
			ops := op.B
			if op.T != "batch" {
				ops = []dbm.BOp{{Del: op.T == "del", K: op.K, V: op.V}}
			}
			for j, bo := range ops {
				k := key(bo.K)
				if bo.Del {
					lb.Delete(k)
					b.Ops = append(b.Ops, model.BOp{Del: true, K: string(k)})
				} else {
					v := bo.V
					v.Raw = false
					val := v.Bytes(tag(j))
					lb.Put(k, val)
					b.Ops = append(b.Ops, model.BOp{K: string(k), V: string(val)})
				}
			}
			if tr != nil {
				// inside an explicit transaction: part of the transaction's batch
				if werr := tr.Write(lb, wo); werr != nil {
					if fs.Crashed() {
						break
					}
					return issued, fmt.Errorf("op #%d: Transaction.Write: %v", i, werr)
				}
				trBatch.Ops = append(trBatch.Ops, b.Ops...)
				continue
			}
			issued = append(issued, b)
			var werr error
			if op.T == "put" && len(ops) == 1 {
				werr = db.Put(key(op.K), []byte(b.Ops[0].V), wo)
			} else if op.T == "del" {
				werr = db.Delete(key(op.K), wo)
			} else {
				werr = db.Write(lb, wo)
			}
			if werr == nil && op.Sync && !fs.Crashed() {
				b.Mandatory = true
			}
			if werr != nil && !fs.Crashed() {
				return issued, fmt.Errorf("op #%d %s: unexpected error %v", i, op.T, werr)
			}
		case "burst":
			// concurrent writers on distinct keys, released together so that they merge
			if tr != nil {
				continue
			}
			htr, terr := db.OpenTransaction()
			if terr != nil {
				if fs.Crashed() {
					break
				}
				return issued, fmt.Errorf("op #%d: OpenTransaction: %v", i, terr)
			}
			var wg sync.WaitGroup
			n := len(op.B)
			bs := make([]*model.Batch, n)
			errs := make([]error, n)
			started := make(chan struct{}, n)
			for j, bo := range op.B {
				b := newBatch()
				k := append(key(bo.K), []byte(fmt.Sprintf("#burst%d", j))...) // distinct keys within the burst
				v := bo.V
				v.Raw = false
				val := v.Bytes(tag(j))
				b.Ops = []model.BOp{{K: string(k), V: string(val)}}
				if c.BurstMix && j%2 == 1 {
					// every other writer goes through DB.Write with a two-record batch
					b.Ops = append(b.Ops, model.BOp{K: string(k) + "'", V: string(val)})
				}
				bs[j] = b
				issued = append(issued, b)
				wg.Add(1)
				go func(j int, k, val []byte, sync bool) {
					defer wg.Done()
					started <- struct{}{}
					if c.BurstMix && j%2 == 1 {
						lb := new(leveldb.Batch)
						lb.Put(k, val)
						lb.Put(append(append([]byte{}, k...), '\''), val)
						errs[j] = db.Write(lb, &opt.WriteOptions{Sync: sync})
					} else {
						errs[j] = db.Put(k, val, &opt.WriteOptions{Sync: sync})
					}
					if errs[j] == nil && sync && !fs.Crashed() {
						bs[j].Mandatory = true
					}
				}(j, k, []byte(val), bo.Del) // Del doubles as the per-writer sync flag in a burst
			}
			for j := 0; j < n; j++ {
				<-started
			}
			time.Sleep(50 * time.Microsecond)
			htr.Discard()
			wg.Wait()
			for j, e := range errs {
				if e != nil && !fs.Crashed() {
					return issued, fmt.Errorf("op #%d burst writer %d: unexpected error %v", i, j, e)
				}
			}
		case "compact":
			if tr != nil {
				continue
			}
			if cerr := db.CompactRange(utilRange(c, op, key)); cerr != nil && !fs.Crashed() {
				return issued, fmt.Errorf("op #%d CompactRange: %v", i, cerr)
			}
		case "idle":
			if tr == nil {
				db.VerifWaitIdle()
			}
		case "reopen":
			if tr != nil {
				tr, trBatch = nil, nil
			}
			db.Close()
			ndb, oerr := leveldb.Open(fs, o)
			if oerr != nil {
				if fs.Crashed() {
					return issued, nil
				}
				return issued, fmt.Errorf("op #%d reopen: %v", i, oerr)
			}
			db = ndb
		case "tropen":
			if tr == nil {
				t, terr := db.OpenTransaction()
				if terr != nil {
					if fs.Crashed() {
						break
					}
					return issued, fmt.Errorf("op #%d OpenTransaction: %v", i, terr)
				}
				tr, trBatch = t, newBatch()
			}
		case "trcommit":
			if tr != nil {
				issued = append(issued, trBatch)
				cerr := tr.Commit()
				if cerr == nil && !fs.Crashed() {
					trBatch.Mandatory = true // Commit is durable without further action
				}
				if cerr != nil {
					tr.Discard()
					if !fs.Crashed() {
						return issued, fmt.Errorf("op #%d Transaction.Commit: %v", i, cerr)
					}
				}
				tr, trBatch = nil, nil
			}
		case "trdiscard":
			if tr != nil {
				tr.Discard()
				tr, trBatch = nil, nil
			}
		}
	}
	return issued, nil
}

// runCrashOnce executes the case for one crash instant.
func runCrashOnce(c *XCase, crashAt int) (st xStats, err error) {
	defer func() {
		if x := recover(); x != nil {
			err = fmt.Errorf("panic: %v", x)
		}
	}()
	o := c.Opts.Build(c.Cmp)
	fs := vfs.New()
	fs.SetCrash(crashAt, tailMode(c.TailSeed, c.TailAlg))
	issued, err := c.runHistory(fs, o, &st)
	if err != nil {
		return st, err
	}
	st.storageOps = fs.Ops()
	img, op := fs.Image()
	if img == nil {
		// the history ended before the crash instant: crash right at the end
		img = fs.CrashNow(tailMode(c.TailSeed, c.TailAlg))
		st.atEnd = true
	} else {
		st.crashed = true
		st.crashOp = op
	}
	if img.Meta().Zero() {
		st.creationSkipped = true // the DB did not exist yet (no CURRENT): outside the property's domain
		return st, nil
	}
	st.torn = img.Torn()
	st.issued = len(issued)
	for _, b := range issued {
		if b.Mandatory {
			st.mandatory++
		}
	}
	// recovery, possibly crashing again during it
	for _, n := range c.Nested {
		img.SetCrash(n, tailMode(c.TailSeed^uint64(n)*0x9e37, c.TailAlg))
		db, oerr := leveldb.Open(img, o)
		if oerr != nil {
			if img2, _ := img.Image(); img2 == nil {
				return st, fmt.Errorf("crash before storage op #%d (%s %s): reopening failed: %v", crashAt, op.Kind, op.FType, oerr)
			}
		}
		if db != nil {
			db.Close()
		}
		img2, _ := img.Image()
		if img2 == nil {
			break // recovery finished before the nested crash instant
		}
		st.nested++
		img = img2
	}
	db, oerr := leveldb.Open(img, o)
	if oerr != nil {
		return st, fmt.Errorf("crash before storage op #%d (%s %s, %d torn files, %d nested): the DB does not open again: %v", crashAt, op.Kind, op.FType, st.torn, st.nested, oerr)
	}
	it := db.NewIterator(nil, nil)
	kvs, serr := dbm.FullScan(it)
	it.Release()
	if cerr := db.Close(); cerr != nil {
		return st, fmt.Errorf("closing the recovered DB: %v", cerr)
	}
	if serr != nil {
		return st, fmt.Errorf("crash before storage op #%d (%s %s): scanning the recovered DB: %v", crashAt, op.Kind, op.FType, serr)
	}
	R := map[string]string{}
	m := model.NewMap()
	for _, kv := range kvs {
		R[string(kv.K)] = string(kv.V)
		m.Put(kv.K, kv.V)
	}
	if msg := model.Solve(nil, issued, R); msg != "" {
		return st, fmt.Errorf("crash before storage op #%d (%s %s-%d, %d torn files, %d nested crashes): recovered contents are not a subset of the issued batches containing all acknowledged synced ones: %s", crashAt, op.Kind, op.FType, op.Num, st.torn, st.nested, msg)
	}
	// the reopened DB is fully usable and well-formed
	ac := &dbm.Case{Prop: "C04", Opts: c.Opts, Cmp: c.Cmp, Keys: c.Keys, Ops: c.After, Det: true, Tree: true}
	e := dbm.NewEnvOn(ac, img, m)
	defer e.Abort()
	if err := e.Open(); err != nil {
		return st, fmt.Errorf("after recovery: %v", err)
	}
	if err := e.Sweep(); err != nil {
		return st, fmt.Errorf("after recovery: %v", err)
	}
	for i := range c.After {
		if err := e.Step(i, &c.After[i]); err != nil {
			return st, fmt.Errorf("continued use after recovery: %v", err)
		}
	}
	if err := e.Finish(); err != nil {
		return st, fmt.Errorf("continued use after recovery: %v", err)
	}
	return st, nil
}

func drawXCase(t *rapid.T) *XCase {
	c := &XCase{}
	c.Opts = gen.DrawOpts(t)
	c.Opts.NoSync = false
	c.Opts.MaxManifestSize = rapid.SampledFrom([]int64{0, 1, 64, 64, 1024}).Draw(t, "mms4")
	c.Cmp = rapid.SampledFrom([]string{"bytewise", "bytewise", "bytewise", "inv", "revstr"}).Draw(t, "cmp")
	c.Keys = gen.DrawKeyPool(t, 3, 24)
	nk := len(c.Keys)
	kinds := []string{"put", "put", "put", "put", "put", "put", "put", "put", "del", "del", "batch", "batch", "bigbatch", "compact", "idle", "reopen", "tropen", "trcommit", "trcommit", "trdiscard", "burst"}
	// long-journal shape: a write buffer well above the 32 KiB journal block and some large
	// values, so that journal records straddle block boundaries
	longj := rapid.IntRange(0, 5).Draw(t, "longjournal") == 0
	if longj {
		c.Opts.WriteBuffer = rapid.SampledFrom([]int{1 << 17, 1 << 20}).Draw(t, "wbj")
		kinds = append(kinds, "fill", "fill", "fill", "batch", "batch", "batch")
	}
	og := rapid.Custom(func(t *rapid.T) dbm.Op {
		op := dbm.Op{T: rapid.SampledFrom(kinds).Draw(t, "op")}
		op.Sync = rapid.IntRange(0, 2).Draw(t, "sync") == 0
		switch op.T {
		case "put":
			op.K = rapid.IntRange(0, nk-1).Draw(t, "k")
			op.V = gen.DrawVSpec(t, "v", false, 2200)
			op.NoMerge = rapid.IntRange(0, 7).Draw(t, "nm") == 0
		case "fill":
			op.T = "put"
			op.K = rapid.IntRange(0, nk-1).Draw(t, "k")
			op.V = gen.VSpec{Len: rapid.SampledFrom([]int{3000, 9000, 15000, 28000, 32000}).Draw(t, "fl") + rapid.IntRange(0, 900).Draw(t, "fx"), Fill: 1}
		case "del":
			op.K = rapid.IntRange(0, nk-1).Draw(t, "k")
		case "batch":
			n := rapid.IntRange(1, 8).Draw(t, "bn")
			for j := 0; j < n; j++ {
				bo := dbm.BOp{K: rapid.IntRange(0, nk-1).Draw(t, "bk")}
				if rapid.IntRange(0, 3).Draw(t, "bdel") == 0 {
					bo.Del = true
				} else {
					bvmax := 700
					if longj {
						bvmax = 4200
					}
					bo.V = gen.DrawVSpec(t, "bv", false, bvmax)
				}
				op.B = append(op.B, bo)
			}
		case "bigbatch":
			op.T = "batch"
			wb := c.Opts.WriteBuffer
			if wb > 4096 {
				wb = 4096
			}
			n := rapid.IntRange(3, 6).Draw(t, "bbn")
			for j := 0; j < n; j++ {
				op.B = append(op.B, dbm.BOp{K: rapid.IntRange(0, nk-1).Draw(t, "bk"), V: gen.VSpec{Len: wb/2 + rapid.IntRange(0, 80).Draw(t, "bbx"), Fill: j % 2}})
			}
		case "burst":
			n := rapid.IntRange(2, 6).Draw(t, "burstn")
			for j := 0; j < n; j++ {
				op.B = append(op.B, dbm.BOp{K: rapid.IntRange(0, nk-1).Draw(t, "bk"), V: gen.VSpec{Len: rapid.SampledFrom([]int{0, 10, 200}).Draw(t, "bl")}, Del: rapid.Bool().Draw(t, "bsync")})
			}
		case "compact":
			if rapid.Bool().Draw(t, "full") {
				v := rapid.IntRange(0, nk-1).Draw(t, "cs")
				op.S = &v
			}
		}
		return op
	})
	span := rapid.SampledFrom([]int{5, 20, 40, 80}).Draw(t, "minops")
	// long-manifest shape: keys of about 1 KiB and a tiny write buffer, so that every flush
	// appends a 2 KiB edit and the manifest soon has records straddling 32 KiB block boundaries
	// (such a record reaches the storage in two writes)
	if !longj && rapid.IntRange(0, 7).Draw(t, "longmanifest") == 0 {
		for i := range c.Keys {
			c.Keys[i] = gen.Hex(append(bytes.Repeat([]byte{'p'}, 1000+i), c.Keys[i]...))
		}
		c.Opts.WriteBuffer = 512
		c.Opts.MaxManifestSize = 0
		if span < 40 {
			span = 40
		}
	}
	c.Ops = rapid.SliceOfN(og, span, 140).Draw(t, "ops")
	// creating the DB takes four storage operations; instants before that are outside the
	// property's domain (there is no DB to open again), so most draws start after them
	if rapid.IntRange(0, 19).Draw(t, "early") == 0 {
		c.CrashAt = rapid.IntRange(1, 5).Draw(t, "crashat0")
	} else {
		c.CrashAt = 4 + rapid.IntRange(1, 60+len(c.Ops)*6).Draw(t, "crashat")
	}
	c.TailSeed = rapid.Uint64().Draw(t, "tail")
	c.TailAlg = rapid.SampledFrom([]int{0, 1, 1}).Draw(t, "tailalg")
	c.BurstMix = rapid.SampledFrom([]bool{false, true, true}).Draw(t, "burstmix")
	if rapid.IntRange(0, 3).Draw(t, "nest") == 0 {
		c.Nested = rapid.SliceOfN(rapid.IntRange(1, 14), 1, 2).Draw(t, "nested")
	}
	pa := &dbm.Profile{Prop: "C04", MinOps: 0, MaxOps: 25, DetPercent: 100,
		W: map[string]int{"put": 30, "del": 8, "batch": 6, "get": 6, "compact": 3, "reopen": 2, "scan": 2}}
	after := dbm.Draw(t, pa)
	c.After = after.Ops
	return c
}

func xClassify(c *XCase, st xStats) (bool, []string) {
	var cl []string
	if st.creationSkipped {
		return false, []string{"creation-crash-skipped"}
	}
	if st.atEnd {
		cl = append(cl, "crash-after-last-operation")
	} else {
		cl = append(cl, "before:"+st.crashOp.Kind+"-"+st.crashOp.FType)
	}
	if st.torn > 0 {
		cl = append(cl, "torn-files")
		if c.TailAlg == 1 {
			cl = append(cl, "torn-files-with-boundary-cut-modes")
		}
	}
	if c.Opts.WriteBuffer >= 1<<17 {
		cl = append(cl, "long-journal-shape")
	}
	if len(c.Keys) > 0 && len(c.Keys[0]) >= 1000 && c.Opts.WriteBuffer == 512 {
		cl = append(cl, "long-manifest-shape")
	}
	if st.nested > 0 {
		cl = append(cl, "nested-crash-in-recovery")
	}
	if st.mandatory > 0 {
		cl = append(cl, "acknowledged-synced-writes")
	}
	// non-trivial: some unsynced tail existed, or the instant lies inside background work /
	// manifest or journal rotation (not right before a foreground journal write)
	inside := st.crashed && !(st.crashOp.Kind == vfs.OpWrite && st.crashOp.FType == "journal")
	return st.torn > 0 || inside, cl
}

// C04: crash at any instant.
func TestC04(t *testing.T) {
	if replayFile() != "" {
		c := &XCase{}
		if err := loadReplay(c); err != nil {
			t.Fatal(err)
		}
		for i := 0; i < envInt("VERIF_REPLAY_RUNS", 10); i++ {
			instants := []int{c.CrashAt}
			if c.All {
				// every instant of the history (schedule-dependent cases: the numbering of the
				// storage operations varies between runs)
				probe, err := runCrashOnce(c, 1<<30)
				if err != nil {
					t.Fatalf("replay failed: %v", err)
				}
				instants = instants[:0]
				for at := 1; at <= probe.storageOps+1; at++ {
					instants = append(instants, at)
				}
			}
			for _, at := range instants {
				if _, err := runCrashOnce(c, at); err != nil {
					t.Fatalf("replay failed (instant %d): %v", at, err)
				}
			}
		}
		return
	}
	rec := evid.New("C04")
	defer rec.Flush()
	thorough := tier() == "thorough"
	rapid.Check(t, func(rt *rapid.T) {
		c := drawXCase(rt)
		saveJSON("VERIF_INFLIGHT", c)
		instants := []int{c.CrashAt}
		if thorough {
			// enumerate every crash instant of this history (the history is re-run per instant;
			// background scheduling makes the operation sequence vary slightly between runs)
			probe, err := runCrashOnce(c, 1<<30)
			if err != nil {
				reportFail("C04", c, err)
				rt.Fatalf("C04 violated: %v", err)
			}
			instants = instants[:0]
			for i := 1; i <= probe.storageOps+1; i++ {
				instants = append(instants, i)
			}
			c.All = true
		}
		for _, at := range instants {
			st, err := runCrashOnce(c, at)
			if err != nil {
				c.CrashAt = at
				c.All = false
				reportFail("C04", c, err)
				rt.Fatalf("C04 violated: %v", err)
			}
			nt, cl := xClassify(c, st)
			cc := *c
			cc.CrashAt = at
			rec.Case(evid.FP(&cc), nt, cl...)
			if st.creationSkipped {
				rec.Add("creation_crash_skipped", 1)
			}
			rec.Add("storage_ops", st.storageOps)
			if nt && st.crashed && rec.WantSample() {
				rec.Sample(map[string]any{"crash_before": fmt.Sprintf("%s %s-%d", st.crashOp.Kind, st.crashOp.FType, st.crashOp.Num), "crashat": at, "torn_files": st.torn,
					"issued_batches": st.issued, "acknowledged_synced": st.mandatory, "nested": st.nested, "ops": len(c.Ops), "opts": c.Opts})
			}
		}
	})
}
