package checks

import (
	"testing"

	"verif/dbm"
)

// C01: reads return the latest write — the DB behaves as an ordered map.
func TestC01(t *testing.T) {
	p := &dbm.Profile{
		StrictVariants: true,
		MinOps:         10, MaxOps: 250, DetPercent: 50,
		W: map[string]int{"put": 30, "del": 10, "batch": 10, "bigbatch": 2, "get": 8, "compact": 4,
			"reopen": 3, "idle": 3, "snap": 2, "snaprel": 1, "scan": 1},
	}
	runDBM(t, "C01", p, func(c *dbm.Case, st *dbm.Stats) (bool, []string) {
		// non-trivial: at least one buffer flush and one table compaction happened and
		// reads were checked afterwards (so answers came from tables).
		return st.MemComp > 0 && st.L0Comp+st.NonL0Comp+st.SeekComp > 0 && st.ReadsAfterComp > 0, nil
	})
}
