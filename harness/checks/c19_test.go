package checks

import (
	"bytes"
	"encoding/binary"
	"fmt"
	"io"
	"os"
	"testing"

	"github.com/syndtr/goleveldb/leveldb"
	"github.com/syndtr/goleveldb/leveldb/iterator"
	"github.com/syndtr/goleveldb/leveldb/journal"
	"github.com/syndtr/goleveldb/leveldb/storage"
	"pgregory.net/rapid"

	"verif/dbm"
	"verif/evid"
	"verif/gen"
	"verif/tparse"
)

// RCase is a Recover case.
type RCase struct {
	Base     *dbm.Case `json:"base"`
	Manifest string    `json:"manifest"` // remove|nometa|truncate|garbage
	TruncAt  int       `json:"truncat,omitempty"`
	Damage   []int     `json:"damage,omitempty"` // indices (mod count) into the list of all data blocks; empty = no block damage
	DmgOff   []int     `json:"dmgoff,omitempty"` // byte offset inside the block (mod length)
	After    []dbm.Op  `json:"after,omitempty"`
	// LateRelease: an iterator opened a few steps before the end of the history stays
	// open until the shutdown and is released immediately before Close, so that the
	// obsolete tables it pinned are being removed while the DB closes.
	LateRelease bool `json:"laterelease,omitempty"`
	// TrAtClose: the history ends inside a transaction that has written tables; it is still open when
	// the DB is closed (Close discards it), and none of its writes may be in the recovered DB.
	TrAtClose bool `json:"tratclose,omitempty"`
}

type rStats struct {
	lateRelease, trAtClose       bool
	levels, tables, blocks       int
	overwritten, deleted, inJrnl bool
	damagedNewest, damagedOlder  bool
}

type physEntry struct {
	seq   uint64
	del   bool
	val   []byte
	table int64
	block int // -1: journal
	dmg   bool
}

type replayCollector struct {
	seq uint64
	out map[string][]physEntry
}

func (r *replayCollector) Put(k, v []byte) {
	r.out[string(k)] = append(r.out[string(k)], physEntry{seq: r.seq, val: append([]byte{}, v...), block: -1})
	r.seq++
}
func (r *replayCollector) Delete(k []byte) {
	r.out[string(k)] = append(r.out[string(k)], physEntry{seq: r.seq, del: true, block: -1})
	r.seq++
}

func runRecover(c *RCase) (st rStats, err error) {
	defer func() {
		if x := recover(); x != nil {
			err = fmt.Errorf("panic: %v", x)
		}
	}()
	base := *c.Base
	base.Tree = true
	e := dbm.NewEnv(&base)
	defer e.Abort()
	if err := e.Open(); err != nil {
		return st, err
	}
	late := -1
	if c.LateRelease {
		late = len(base.Ops) - 12
		if late < 0 {
			late = 0
		}
		for j := range base.Ops {
			if t := base.Ops[j].T; (t == "reopen" || t == "recover") && j >= late {
				late = j + 1 // the DB handle changes there
			}
		}
	}
	var lateIt iterator.Iterator
	for i := range base.Ops {
		if i == late {
			lateIt = e.DB.NewIterator(nil, nil)
			lateIt.First()
		}
		if err := e.Step(i, &base.Ops[i]); err != nil {
			if lateIt != nil {
				lateIt.Release()
			}
			return st, err
		}
	}
	if lateIt != nil {
		st.lateRelease = true
		defer func() {
			if lateIt != nil {
				lateIt.Release()
			}
		}()
	}
	e.KeepTr = c.TrAtClose
	if err := e.ReleaseHandles(); err != nil {
		return st, err
	}
	if err := e.Idle(); err != nil {
		return st, err
	}
	levels := map[int]bool{}
	liveBefore := ""
	for _, t := range e.DB.VerifTables() {
		levels[t.Level] = true
		st.tables++
		liveBefore += fmt.Sprintf(" L%d#%d", t.Level, t.Num)
	}
	filesBefore := fmt.Sprint(e.FS.Files())
	refsBefore := fmt.Sprint(e.DB.VerifFileRefs())
	// the premise of the property is a clean, settled shutdown: nothing but live files in storage
	// (with a late iterator the tables of its version are legitimately still there)
	trOpen := e.Tr != nil
	if trOpen {
		st.trAtClose = true
	}
	if lateIt == nil && !trOpen {
		if err := e.CheckFileSet("settled state before shutdown"); err != nil {
			return st, fmt.Errorf("%v (live tables:%s; files: %s; table references: %s)", err, liveBefore, filesBefore, refsBefore)
		}
	}
	st.levels = len(levels)
	if lateIt != nil {
		lateIt.Release()
		lateIt = nil
	}
	if err := e.Close(); err != nil {
		return st, err
	}
	fs := e.FS

	// physical contents before any damage
	phys := map[string][]physEntry{}
	type blk struct {
		fd       storage.FileDesc
		off, len int
		idx      int
	}
	var blocks []blk
	for _, fd := range fs.Files() {
		data, _ := fs.ReadFile(fd)
		switch fd.Type {
		case storage.TypeTable:
			bs, perr := tparse.Parse(data)
			if perr != nil {
				return st, fmt.Errorf("checker could not parse table %d before damage: %v", fd.Num, perr)
			}
			for bi, b := range bs {
				blocks = append(blocks, blk{fd, b.Off, b.Len, bi})
				for _, en := range b.Entries {
					uk, seq, kt, kerr := leveldb.VerifParseInternalKey(en.Key)
					if kerr != nil {
						return st, fmt.Errorf("table %d holds an unparsable key before damage", fd.Num)
					}
					phys[string(uk)] = append(phys[string(uk)], physEntry{seq: seq, del: kt == 0, val: en.Value, table: fd.Num, block: bi})
				}
			}
		case storage.TypeJournal:
			jr := journal.NewReader(bytes.NewReader(data), nil, true, true)
			for {
				r, jerr := jr.Next()
				if jerr == io.EOF {
					break
				}
				if jerr != nil {
					return st, fmt.Errorf("checker could not read journal %d: %v", fd.Num, jerr)
				}
				rec, _ := io.ReadAll(r)
				if len(rec) < 12 {
					continue
				}
				b := new(leveldb.Batch)
				if lerr := b.Load(rec[12:]); lerr != nil {
					return st, fmt.Errorf("checker could not decode a journal batch: %v", lerr)
				}
				rc := &replayCollector{seq: binary.LittleEndian.Uint64(rec), out: phys}
				b.Replay(rc)
				st.inJrnl = true
			}
		}
	}
	st.blocks = len(blocks)
	for _, es := range phys {
		if len(es) > 1 {
			st.overwritten = true
		}
		for _, en := range es {
			if en.del {
				st.deleted = true
			}
		}
	}

	// lose / damage the manifest
	meta := fs.Meta()
	switch c.Manifest {
	case "remove":
		for _, fd := range fs.Files() {
			if fd.Type == storage.TypeManifest {
				fs.DeleteFile(fd)
			}
		}
		fs.ClearMeta()
	case "nometa":
		fs.ClearMeta()
	case "truncate":
		if d, ok := fs.ReadFile(meta); ok {
			fs.WriteFile(meta, d[:c.TruncAt%(len(d)+1)])
		}
	case "garbage":
		if d, ok := fs.ReadFile(meta); ok {
			for i := range d {
				d[i] = byte(i*131 + c.TruncAt)
			}
			fs.WriteFile(meta, d)
		}
	}
	// damage table data blocks
	damaged := map[[2]int64]bool{}
	if len(blocks) > 0 {
		for i, di := range c.Damage {
			b := blocks[di%len(blocks)]
			key := [2]int64{b.fd.Num, int64(b.idx)}
			if damaged[key] {
				continue
			}
			damaged[key] = true
			d, _ := fs.ReadFile(b.fd)
			off := 0
			if i < len(c.DmgOff) {
				off = c.DmgOff[i] % b.len
			}
			d[b.off+off] ^= 0x5a
			fs.WriteFile(b.fd, d)
		}
	}
	for k, es := range phys {
		for i := range es {
			if es[i].block >= 0 && damaged[[2]int64{es[i].table, int64(es[i].block)}] {
				es[i].dmg = true
			}
		}
		phys[k] = es
	}

	e.SetOpIdx(len(base.Ops))
	if err := e.OpenWith("Recover", func() (*leveldb.DB, error) { return leveldb.Recover(fs, e.O) }); err != nil {
		return st, err
	}
	if len(damaged) == 0 {
		// exactly the same logical contents
		if err := e.Sweep(); err != nil {
			if os.Getenv("VERIF_DEBUG") != "" {
				fmt.Println("LIVE-BEFORE-CLOSE", liveBefore, "FILES", filesBefore, "REFS", refsBefore)
				for k, es := range phys {
					for _, en := range es {
						fmt.Printf("PHYS key=%q seq=%d del=%v table=%d block=%d vlen=%d\n", k, en.seq, en.del, en.table, en.block, len(en.val))
					}
				}
				for _, fd := range fs.Files() {
					n, _, _, _ := fs.FileInfo(fd)
					fmt.Printf("FILE %v %d bytes\n", fd, n)
				}
				for _, tb := range e.DB.VerifTables() {
					fmt.Printf("TABLE L%d #%d %q..%q\n", tb.Level, tb.Num, tb.IMin, tb.IMax)
				}
				for i, l := range fs.LogFrom(0) {
					if i > fs.LogLen()-40 {
						fmt.Printf("LOG %d %s %s-%d %d\n", i, l.Kind, l.FType, l.Num, l.N)
					}
				}
			}
			return st, fmt.Errorf("after Recover (manifest %s): %v (before shutdown: live tables:%s; files: %s; table references: %s)", c.Manifest, err, liveBefore, filesBefore, refsBefore)
		}
	} else {
		// entry in an undamaged block with no newer version => returned; nothing never written
		all := map[string]bool{}
		for k := range phys {
			all[k] = true
		}
		for i := range base.Keys {
			all[string(base.Keys[i])] = true
		}
		for k := range all {
			es := phys[k]
			var newest *physEntry
			for i := range es {
				if newest == nil || es[i].seq > newest.seq {
					newest = &es[i]
				}
			}
			got, gerr := e.DB.Get([]byte(k), nil)
			if gerr != nil && gerr != leveldb.ErrNotFound {
				return st, fmt.Errorf("after Recover with %d damaged block(s): Get(%q): %v", len(damaged), k, gerr)
			}
			if newest != nil && !newest.dmg {
				if newest.del {
					if gerr != leveldb.ErrNotFound {
						return st, fmt.Errorf("after Recover with damaged blocks: Get(%q) = %.30q, but its newest entry (a deletion, seq %d) sits in an undamaged block", k, got, newest.seq)
					}
				} else if gerr != nil || !bytes.Equal(got, newest.val) {
					return st, fmt.Errorf("after Recover with damaged blocks: Get(%q) = %.30q, %v; its newest entry %.30q (seq %d) sits in an undamaged block", k, got, gerr, newest.val, newest.seq)
				}
				continue
			}
			if newest != nil && newest.dmg {
				st.damagedNewest = true
			}
			if gerr == nil {
				ok := false
				for _, en := range es {
					if !en.del && bytes.Equal(en.val, got) {
						ok = true
					}
				}
				if !ok {
					return st, fmt.Errorf("after Recover with damaged blocks: Get(%q) = %.30q which was never stored under that key", k, got)
				}
				// adopt what the DB now holds as the model for the continued use
				e.M.Put([]byte(k), got)
			} else {
				e.M.Delete([]byte(k))
			}
		}
		for _, es := range phys {
			for i := range es {
				if es[i].dmg {
					newer := false
					for j := range es {
						if es[j].seq > es[i].seq {
							newer = true
						}
					}
					if newer {
						st.damagedOlder = true
					}
				}
			}
		}
		// the recovered DB must be self-consistent
		if err := e.Sweep(); err != nil {
			return st, fmt.Errorf("after Recover with damaged blocks (model adopted from point reads): %v", err)
		}
	}
	for i := range c.After {
		if err := e.Step(len(base.Ops)+1+i, &c.After[i]); err != nil {
			return st, fmt.Errorf("continued use after Recover: %v", err)
		}
	}
	return st, e.Finish()
}

func drawRCase(t *rapid.T) *RCase {
	p := &dbm.Profile{Prop: "C19", MinOps: 10, MaxOps: 220, DetPercent: 60, SlowRemovePercent: 30,
		W: map[string]int{"put": 36, "del": 10, "batch": 8, "bigbatch": 1, "compact": 3, "reopen": 1, "idle": 3, "snap": 2, "snaprel": 1, "get": 2, "churn": 1}}
	c := &RCase{Base: dbm.Draw(t, p)}
	nk := len(c.Base.Keys)
	if rapid.IntRange(0, 3).Draw(t, "idletail") == 0 {
		// the history ends with a reopen that flushes nothing followed by a few small writes: the
		// live journal then has a higher number than every table and is not empty
		c.Base.Ops = append(c.Base.Ops, dbm.Op{T: "reopen"}, dbm.Op{T: "reopen"})
		for j := rapid.IntRange(1, 3).Draw(t, "tailputs"); j > 0; j-- {
			c.Base.Ops = append(c.Base.Ops, dbm.Op{T: "put", K: rapid.IntRange(0, nk-1).Draw(t, "tk"), V: gen.VSpec{Len: rapid.IntRange(0, 20).Draw(t, "tv")}})
		}
	}
	c.LateRelease = rapid.IntRange(0, 2).Draw(t, "laterelease") == 0
	if rapid.IntRange(0, 4).Draw(t, "tratclose") == 0 {
		// the history ends inside a transaction big enough to have flushed tables of its own
		c.TrAtClose = true
		c.Base.Ops = append(c.Base.Ops, dbm.Op{T: "tropen"})
		wb := c.Base.Opts.WriteBuffer
		if wb > 4096 {
			wb = 4096
		}
		for j := rapid.IntRange(3, 8).Draw(t, "trputs"); j > 0; j-- {
			if rapid.IntRange(0, 3).Draw(t, "trdel") == 0 {
				c.Base.Ops = append(c.Base.Ops, dbm.Op{T: "del", K: rapid.IntRange(0, nk-1).Draw(t, "trk")})
			} else {
				c.Base.Ops = append(c.Base.Ops, dbm.Op{T: "put", K: rapid.IntRange(0, nk-1).Draw(t, "trk"), V: gen.VSpec{Len: wb/2 + 30, Fill: j % 2}})
			}
		}
	}
	c.Manifest = rapid.SampledFrom([]string{"remove", "truncate", "garbage", "nometa"}).Draw(t, "manifest")
	c.TruncAt = rapid.IntRange(0, 1<<16).Draw(t, "truncat")
	if rapid.IntRange(0, 9).Draw(t, "dmg") >= 6 {
		n := rapid.IntRange(1, 4).Draw(t, "ndmg")
		for i := 0; i < n; i++ {
			c.Damage = append(c.Damage, rapid.IntRange(0, 1<<20).Draw(t, "blk"))
			c.DmgOff = append(c.DmgOff, rapid.IntRange(0, 1<<20).Draw(t, "boff"))
		}
	}
	pa := &dbm.Profile{Prop: "C19", MinOps: 0, MaxOps: 40, DetPercent: 50,
		W: map[string]int{"put": 30, "del": 8, "batch": 6, "get": 6, "compact": 3, "reopen": 2, "idle": 2, "scan": 2}}
	after := dbm.Draw(t, pa)
	// the continued use shares the key pool of the history
	if rapid.IntRange(0, 2).Draw(t, "afterreopen") == 0 {
		// writes to the recovered DB must survive an ordinary close and reopen
		c.After = append(c.After, dbm.Op{T: "put", K: rapid.IntRange(0, nk-1).Draw(t, "ak"), V: gen.VSpec{Len: 9}}, dbm.Op{T: "reopen"})
	}
	for _, op := range after.Ops {
		c.After = append(c.After, op)
	}
	return c
}

// C19: Recover rebuilds the DB from its table and journal files.
func TestC19(t *testing.T) {
	if replayFile() != "" {
		c := &RCase{}
		if err := loadReplay(c); err != nil {
			t.Fatal(err)
		}
		for i := 0; i < envInt("VERIF_REPLAY_RUNS", 5); i++ {
			if _, err := runRecover(c); err != nil {
				t.Fatalf("replay failed: %v", err)
			}
		}
		return
	}
	rec := evid.New("C19")
	defer rec.Flush()
	rapid.Check(t, func(rt *rapid.T) {
		c := drawRCase(rt)
		saveJSON("VERIF_INFLIGHT", c)
		st, err := runRecover(c)
		if err != nil {
			reportFail("C19", c, err)
			rt.Fatalf("C19 violated: %v", err)
		}
		var cl []string
		add := func(ok bool, s string) {
			if ok {
				cl = append(cl, s)
			}
		}
		add(st.levels >= 2, "levels>=2")
		add(st.overwritten, "overwritten-version-physically-present")
		add(st.deleted, "tombstone-physically-present")
		add(st.inJrnl, "data-in-journal")
		add(st.lateRelease, "iterator-released-right-before-close")
		add(st.trAtClose, "transaction-open-at-close")
		add(len(c.Damage) > 0, "block-damage")
		add(st.damagedNewest, "damage-hit-newest-version")
		add(st.damagedOlder, "damage-hit-older-version")
		add(true, "manifest-"+c.Manifest)
		nt := st.levels >= 2 && st.overwritten && st.deleted
		rec.Case(evid.FP(c), nt, cl...)
		if nt && rec.WantSample() {
			rec.Sample(map[string]any{"manifest": c.Manifest, "damage": c.Damage, "history_ops": len(c.Base.Ops), "after_ops": len(c.After), "opts": c.Base.Opts, "cmp": c.Base.Cmp,
				"tables": st.tables, "levels": st.levels, "blocks": st.blocks})
		}
	})
}
