package checks

import (
	"fmt"
	"sort"
	"testing"

	"github.com/syndtr/goleveldb/leveldb/iterator"
	"pgregory.net/rapid"

	"verif/dbm"
	"verif/evid"
	"verif/gen"
	"verif/model"
)

// ICase is a component-iterator case: a sorted key set split over several
// array iterators, read through a merged iterator or an indexed iterator.
type ICase struct {
	Kind   string     `json:"kind"` // merged|indexed
	Cmp    string     `json:"cmp"`
	Keys   []gen.Hex  `json:"keys"`
	Assign []int      `json:"assign"` // merged: child of each (sorted) key; indexed: chunk boundaries flags
	NChild int        `json:"nchild"`
	Probes []gen.Hex  `json:"probes"`
	Walk   []dbm.Move `json:"walk"`
}

type kvArray struct {
	kvs []model.KV
	cmp func(a, b []byte) int
}

func (a *kvArray) Len() int { return len(a.kvs) }
func (a *kvArray) Search(key []byte) int {
	return sort.Search(len(a.kvs), func(i int) bool { return a.cmp(a.kvs[i].K, key) >= 0 })
}
func (a *kvArray) Index(i int) (key, value []byte) { return a.kvs[i].K, a.kvs[i].V }

type chunkIndex struct {
	chunks []*kvArray
	last   [][]byte // index key of each chunk (>= every key of the chunk, < every key of the next)
	cmp    func(a, b []byte) int
}

func (x *chunkIndex) Len() int { return len(x.chunks) }
func (x *chunkIndex) Search(key []byte) int {
	return sort.Search(len(x.last), func(i int) bool { return x.cmp(x.last[i], key) >= 0 })
}
func (x *chunkIndex) Get(i int) iterator.Iterator { return iterator.NewArrayIterator(x.chunks[i]) }

func runIterCase(c *ICase) (reversal bool, err error) {
	defer func() {
		if x := recover(); x != nil {
			err = fmt.Errorf("panic: %v", x)
		}
	}()
	cmp := gen.Comparer(c.Cmp)
	seen := map[string]bool{}
	var all []model.KV
	for i, k := range c.Keys {
		if seen[string(k)] {
			continue
		}
		seen[string(k)] = true
		all = append(all, model.KV{K: append([]byte{}, k...), V: []byte(fmt.Sprintf("v%d", i))})
	}
	sort.Slice(all, func(i, j int) bool { return cmp.Compare(all[i].K, all[j].K) < 0 })
	n := c.NChild
	if n < 1 {
		n = 1
	}
	var it iterator.Iterator
	switch c.Kind {
	case "merged":
		children := make([]*kvArray, n)
		for i := range children {
			children[i] = &kvArray{cmp: cmp.Compare}
		}
		for i, kv := range all {
			ch := 0
			if i < len(c.Assign) {
				ch = c.Assign[i] % n
			}
			children[ch].kvs = append(children[ch].kvs, kv)
		}
		var its []iterator.Iterator
		for _, ch := range children {
			its = append(its, iterator.NewArrayIterator(ch))
		}
		it = iterator.NewMergedIterator(its, cmp, true)
	default:
		// consecutive chunks; a chunk may be empty (its index key then repeats the previous boundary)
		idx := &chunkIndex{cmp: cmp.Compare}
		cur := &kvArray{cmp: cmp.Compare}
		for i, kv := range all {
			cur.kvs = append(cur.kvs, kv)
			cut := i < len(c.Assign) && c.Assign[i]%3 == 0
			if cut || i == len(all)-1 {
				idx.chunks = append(idx.chunks, cur)
				idx.last = append(idx.last, kv.K)
				cur = &kvArray{cmp: cmp.Compare}
			}
		}
		if len(all) == 0 {
			idx.chunks = nil
		}
		it = iterator.NewIndexedIterator(iterator.NewArrayIndexer(idx), true)
	}
	defer it.Release()
	probe := func(i int) []byte {
		if len(c.Probes) == 0 {
			return []byte("p")
		}
		return append([]byte{}, c.Probes[i%len(c.Probes)]...)
	}
	st := &tStats{}
	if err := walkIter(it, model.NewCursor(all, cmp.Compare), c.Walk, probe, st); err != nil {
		return st.reversal, fmt.Errorf("%s iterator over %d keys in %d parts: %v", c.Kind, len(all), n, err)
	}
	// full passes
	i := 0
	for ok := it.First(); ok; ok = it.Next() {
		if i >= len(all) || string(it.Key()) != string(all[i].K) || string(it.Value()) != string(all[i].V) {
			return st.reversal, fmt.Errorf("%s iterator: forward pass pair #%d is %q", c.Kind, i, it.Key())
		}
		i++
	}
	if i != len(all) {
		return st.reversal, fmt.Errorf("%s iterator: forward pass yields %d of %d pairs", c.Kind, i, len(all))
	}
	i = len(all) - 1
	for ok := it.Last(); ok; ok = it.Prev() {
		if i < 0 || string(it.Key()) != string(all[i].K) {
			return st.reversal, fmt.Errorf("%s iterator: backward pass pair is %q at position %d", c.Kind, it.Key(), i)
		}
		i--
	}
	if i != -1 {
		return st.reversal, fmt.Errorf("%s iterator: backward pass stopped with %d pairs left", c.Kind, i+1)
	}
	return st.reversal, it.Error()
}

// TestC02M: the component iterators behind DB iterators (merged, indexed), same walk generator and cursor oracle.
func TestC02M(t *testing.T) {
	if replayFile() != "" {
		c := &ICase{}
		if err := loadReplay(c); err != nil {
			t.Fatal(err)
		}
		if _, err := runIterCase(c); err != nil {
			t.Fatalf("replay failed: %v", err)
		}
		return
	}
	rec := evid.New("C02")
	defer rec.Flush()
	rapid.Check(t, func(rt *rapid.T) {
		c := &ICase{Kind: rapid.SampledFrom([]string{"merged", "merged", "indexed"}).Draw(rt, "kind")}
		c.Cmp = rapid.SampledFrom([]string{"bytewise", "inv", "lenfirst", "revstr"}).Draw(rt, "cmp")
		c.Keys = gen.DrawKeyPool(rt, 0, 40)
		c.NChild = rapid.IntRange(1, 6).Draw(rt, "nchild")
		c.Assign = rapid.SliceOfN(rapid.IntRange(0, 11), len(c.Keys), len(c.Keys)).Draw(rt, "assign")
		c.Probes = gen.DrawKeyPool(rt, 1, 8)
		c.Probes = append(c.Probes, c.Keys...)
		c.Walk = dbm.DrawWalk(rt, len(c.Probes), 50)
		rev, err := runIterCase(c)
		if err != nil {
			reportFail("C02", c, err)
			rt.Fatalf("C02 violated: %v", err)
		}
		rec.Case(evid.FP(c), rev && len(c.Keys) >= 3, "component-"+c.Kind)
	})
}
