package checks

import (
	"bytes"
	"encoding/binary"
	"fmt"
	"sort"
	"testing"

	"github.com/syndtr/goleveldb/leveldb"
	"github.com/syndtr/goleveldb/leveldb/comparer"
	"pgregory.net/rapid"

	"verif/evid"
	"verif/gen"
)

// KCase is an internal-key law case: three entries and a comparer.
type KCase struct {
	Cmp string    `json:"cmp"`
	U   []gen.Hex `json:"u"`   // three user keys
	Seq []uint64  `json:"seq"` // three sequence numbers
	Kt  []uint    `json:"kt"`  // three kinds
}

func sign(x int) int {
	switch {
	case x < 0:
		return -1
	case x > 0:
		return 1
	}
	return 0
}

func refCompare(ucmp comparer.Comparer, ua []byte, sa uint64, ka uint, ub []byte, sb uint64, kb uint) int {
	if d := sign(ucmp.Compare(ua, ub)); d != 0 {
		return d
	}
	na, nb := sa<<8|uint64(ka), sb<<8|uint64(kb)
	switch {
	case na > nb:
		return -1 // newer first
	case na < nb:
		return 1
	}
	return 0
}

func runKeys(c *KCase) (classes []string, err error) {
	defer func() {
		if x := recover(); x != nil {
			err = fmt.Errorf("panic: %v", x)
		}
	}()
	ucmp := gen.Comparer(c.Cmp)
	icmp := leveldb.VerifInternalComparer(ucmp)
	var ik [3][]byte
	for i := 0; i < 3; i++ {
		ik[i] = leveldb.VerifMakeInternalKey(c.U[i], c.Seq[i], c.Kt[i])
		u, s, k, perr := leveldb.VerifParseInternalKey(ik[i])
		if perr != nil || !bytes.Equal(u, c.U[i]) || s != c.Seq[i] || k != c.Kt[i] {
			return nil, fmt.Errorf("decode(encode(%q,%d,%d)) = %q,%d,%d,%v", c.U[i], c.Seq[i], c.Kt[i], u, s, k, perr)
		}
		if len(ik[i]) != len(c.U[i])+8 || binary.LittleEndian.Uint64(ik[i][len(c.U[i]):]) != c.Seq[i]<<8|uint64(c.Kt[i]) {
			return nil, fmt.Errorf("encoding of (%q,%d,%d) is not ukey + little-endian (seq<<8|kind)", c.U[i], c.Seq[i], c.Kt[i])
		}
	}
	// order agrees with (user key asc, seq desc, kind desc); antisymmetric; equal iff identical
	for i := 0; i < 3; i++ {
		for j := 0; j < 3; j++ {
			got := sign(icmp.Compare(ik[i], ik[j]))
			want := refCompare(ucmp, c.U[i], c.Seq[i], c.Kt[i], c.U[j], c.Seq[j], c.Kt[j])
			if got != want {
				return nil, fmt.Errorf("Compare((%q,%d,%d),(%q,%d,%d)) = %d, expected %d", c.U[i], c.Seq[i], c.Kt[i], c.U[j], c.Seq[j], c.Kt[j], got, want)
			}
			if got != -sign(icmp.Compare(ik[j], ik[i])) {
				return nil, fmt.Errorf("Compare is not antisymmetric on %q / %q", ik[i], ik[j])
			}
			if (got == 0) != bytes.Equal(ik[i], ik[j]) {
				return nil, fmt.Errorf("Compare = 0 for different keys or != 0 for identical keys: %q / %q", ik[i], ik[j])
			}
		}
	}
	// transitivity: sorting by Compare gives a chain
	idx := []int{0, 1, 2}
	sort.Slice(idx, func(a, b int) bool { return icmp.Compare(ik[idx[a]], ik[idx[b]]) < 0 })
	if icmp.Compare(ik[idx[0]], ik[idx[1]]) > 0 || icmp.Compare(ik[idx[1]], ik[idx[2]]) > 0 || icmp.Compare(ik[idx[0]], ik[idx[2]]) > 0 {
		return nil, fmt.Errorf("Compare is not transitive on %q %q %q", ik[0], ik[1], ik[2])
	}
	// lookup probe: (k, s, seek) sorts immediately before the newest entry of k not newer than s
	for i := 0; i < 3; i++ {
		probe := leveldb.VerifMakeInternalKey(c.U[i], c.Seq[i], 1)
		for j := 0; j < 3; j++ {
			for _, kt := range []uint{0, 1} {
				e := leveldb.VerifMakeInternalKey(c.U[i], c.Seq[j], kt)
				d := icmp.Compare(probe, e)
				if c.Seq[j] <= c.Seq[i] && d > 0 {
					return nil, fmt.Errorf("probe (%q,%d) sorts after entry (%q,%d,%d) which is not newer", c.U[i], c.Seq[i], c.U[i], c.Seq[j], kt)
				}
				if c.Seq[j] > c.Seq[i] && d <= 0 {
					return nil, fmt.Errorf("probe (%q,%d) does not sort after the newer entry (%q,%d,%d)", c.U[i], c.Seq[i], c.U[i], c.Seq[j], kt)
				}
			}
		}
	}
	// index-key shortening laws on the internal comparer and on the user comparer
	check := func(cmp comparer.Comparer, name string, a, b []byte) error {
		if cmp.Compare(a, b) >= 0 {
			return nil
		}
		ac, bc := append([]byte{}, a...), append([]byte{}, b...)
		for _, dst := range [][]byte{nil, make([]byte, 0, 64)} {
			sep := cmp.Separator(dst, a, b)
			if !bytes.Equal(a, ac) || !bytes.Equal(b, bc) {
				return fmt.Errorf("%s.Separator modified its arguments", name)
			}
			if sep != nil {
				if cmp.Compare(a, sep) > 0 || cmp.Compare(sep, b) >= 0 {
					return fmt.Errorf("%s.Separator(%q,%q) = %q violates a <= sep < b", name, a, b, sep)
				}
			}
			suc := cmp.Successor(dst, b)
			if !bytes.Equal(b, bc) {
				return fmt.Errorf("%s.Successor modified its argument", name)
			}
			if suc != nil && cmp.Compare(suc, b) < 0 {
				return fmt.Errorf("%s.Successor(%q) = %q violates succ >= b", name, b, suc)
			}
			suc = cmp.Successor(dst, a)
			if suc != nil && cmp.Compare(suc, a) < 0 {
				return fmt.Errorf("%s.Successor(%q) = %q violates succ >= a", name, a, suc)
			}
		}
		if cmp == comparer.DefaultComparer {
			// the documented contract is "appends a sequence of bytes x to dst": with a non-empty
			// dst the caller's bytes stay and the appended part obeys the law (judged for the
			// repository's own comparer; composed comparers pass their prefix this way)
			pfx := []byte("dst-prefix\xff")
			dst := append(make([]byte, 0, 96), pfx...)
			if sep := cmp.Separator(dst, a, b); sep != nil {
				if !bytes.HasPrefix(sep, pfx) {
					return fmt.Errorf("%s.Separator(dst=%q, %q, %q) = %q does not keep the caller's dst bytes", name, pfx, a, b, sep)
				}
				if x := sep[len(pfx):]; cmp.Compare(a, x) > 0 || cmp.Compare(x, b) >= 0 {
					return fmt.Errorf("%s.Separator(dst=%q, %q, %q) appended %q, which violates a <= x < b", name, pfx, a, b, x)
				}
			}
			dst = append(make([]byte, 0, 96), pfx...)
			if suc := cmp.Successor(dst, b); suc != nil {
				if !bytes.HasPrefix(suc, pfx) {
					return fmt.Errorf("%s.Successor(dst=%q, %q) = %q does not keep the caller's dst bytes", name, pfx, b, suc)
				}
				if x := suc[len(pfx):]; cmp.Compare(x, b) < 0 {
					return fmt.Errorf("%s.Successor(dst=%q, %q) appended %q, which violates x >= b", name, pfx, b, x)
				}
			}
		}
		return nil
	}
	for i := 0; i < 3; i++ {
		for j := 0; j < 3; j++ {
			if err := check(icmp, "internal comparer over "+c.Cmp, ik[i], ik[j]); err != nil {
				return nil, err
			}
			if err := check(ucmp, "comparer "+c.Cmp, c.U[i], c.U[j]); err != nil {
				return nil, err
			}
			if err := check(comparer.DefaultComparer, "DefaultComparer", c.U[i], c.U[j]); err != nil {
				return nil, err
			}
		}
	}
	// classes
	sameU := bytes.Equal(c.U[0], c.U[1]) || bytes.Equal(c.U[1], c.U[2]) || bytes.Equal(c.U[0], c.U[2])
	prefix := false
	ffrun := false
	for i := 0; i < 3; i++ {
		for j := 0; j < 3; j++ {
			if i != j && len(c.U[i]) < len(c.U[j]) && bytes.HasPrefix(c.U[j], c.U[i]) {
				prefix = true
			}
		}
		if bytes.Contains(c.U[i], []byte{0xff, 0xff}) || (len(c.U[i]) > 0 && c.U[i][len(c.U[i])-1] == 0xff) {
			ffrun = true
		}
	}
	if sameU {
		classes = append(classes, "equal-user-keys")
	}
	if prefix {
		classes = append(classes, "prefix-related")
	}
	if ffrun {
		classes = append(classes, "0xff-run")
	}
	classes = append(classes, "cmp-"+c.Cmp)
	return classes, nil
}

var boundarySeqs = []uint64{0, 1, 2, 255, 256, 257, 1 << 16, 1 << 32, 1<<56 - 2, 1<<56 - 1}

func drawKCase(t *rapid.T) *KCase {
	c := &KCase{Cmp: rapid.SampledFrom(gen.ComparerIDs).Draw(t, "cmp")}
	base := gen.DrawKey(t, "base")
	for i := 0; i < 3; i++ {
		var u []byte
		switch rapid.IntRange(0, 5).Draw(t, "uk") {
		case 0:
			u = append([]byte{}, base...) // identical user key
		case 1:
			u = append(append([]byte{}, base...), rapid.SliceOfN(rapid.SampledFrom([]byte{0x00, 0x01, 'a', 0xfe, 0xff}), 1, 3).Draw(t, "ext")...) // base is a prefix
		case 2:
			n := rapid.IntRange(0, len(base)).Draw(t, "cut")
			u = append([]byte{}, base[:n]...) // a prefix of base
		case 3:
			u = append([]byte{}, base...)
			if len(u) > 0 {
				p := rapid.IntRange(0, len(u)-1).Draw(t, "pos")
				u[p] = rapid.SampledFrom([]byte{0x00, 0x01, 0x7f, 0x80, 0xfe, 0xff}).Draw(t, "byte")
			}
		default:
			u = gen.DrawKey(t, "u")
		}
		if u == nil {
			u = []byte{}
		}
		c.U = append(c.U, gen.Hex(u))
		if rapid.Bool().Draw(t, "bseq") {
			c.Seq = append(c.Seq, rapid.SampledFrom(boundarySeqs).Draw(t, "seq"))
		} else {
			c.Seq = append(c.Seq, rapid.Uint64Range(0, 1<<56-1).Draw(t, "seq"))
		}
		c.Kt = append(c.Kt, uint(rapid.IntRange(0, 1).Draw(t, "kt")))
	}
	return c
}

// C15: internal key order and index-key shortening obey their laws.
func TestC15(t *testing.T) {
	if replayFile() != "" {
		c := &KCase{}
		if err := loadReplay(c); err != nil {
			t.Fatal(err)
		}
		if _, err := runKeys(c); err != nil {
			t.Fatalf("replay failed: %v", err)
		}
		return
	}
	rec := evid.New("C15")
	defer rec.Flush()
	rapid.Check(t, func(rt *rapid.T) {
		c := drawKCase(rt)
		cl, err := runKeys(c)
		if err != nil {
			reportFail("C15", c, err)
			rt.Fatalf("C15 violated: %v", err)
		}
		nt := false
		for _, x := range cl {
			if x == "equal-user-keys" || x == "prefix-related" || x == "0xff-run" {
				nt = true
			}
		}
		rec.Case(evid.FP(c), nt, cl...)
		if nt && rec.WantSample() {
			rec.Sample(c)
		}
	})
}

// FuzzC15 is the native fuzz target: three user keys are cut out of the input.
func FuzzC15(f *testing.F) {
	f.Add([]byte{0, 1, 1, 1, 'a', 'a', 0xff, 0, 0, 0, 0, 0, 0, 0, 1, 2})
	f.Add([]byte{3, 2, 3, 4, 0xff, 0xff, 0xff, 0xfe, 'a', 'b', 0, 0, 0, 9, 9, 9, 9, 9, 9, 9, 9, 9, 9, 9, 9})
	f.Add([]byte{6, 0, 0, 0})
	f.Fuzz(func(t *testing.T, data []byte) {
		if len(data) < 4 {
			return
		}
		c := &KCase{Cmp: gen.ComparerIDs[int(data[0])%len(gen.ComparerIDs)]}
		lens := []int{int(data[1]) % 12, int(data[2]) % 12, int(data[3]) % 12}
		rest := data[4:]
		for i := 0; i < 3; i++ {
			n := lens[i]
			if n > len(rest) {
				n = len(rest)
			}
			c.U = append(c.U, gen.Hex(append([]byte{}, rest[:n]...)))
			if n < len(rest) && rest[n]%3 == 0 && i > 0 {
				c.U[i] = append(gen.Hex{}, c.U[i-1]...) // equal user keys often
			}
			rest = rest[n:]
			var s uint64
			for j := 0; j < 7 && len(rest) > 0; j++ {
				s = s<<8 | uint64(rest[0])
				rest = rest[1:]
			}
			c.Seq = append(c.Seq, s&(1<<56-1))
			kt := uint(0)
			if len(rest) > 0 {
				kt = uint(rest[0] & 1)
				rest = rest[1:]
			}
			c.Kt = append(c.Kt, kt)
		}
		if _, err := runKeys(c); err != nil {
			t.Fatalf("C15 violated: %v (case %+v)", err, c)
		}
	})
}
