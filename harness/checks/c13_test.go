package checks

import (
	"bytes"
	"fmt"
	"runtime/debug"
	"sort"
	"testing"

	"github.com/syndtr/goleveldb/leveldb"
	"github.com/syndtr/goleveldb/leveldb/cache"
	"github.com/syndtr/goleveldb/leveldb/comparer"
	"github.com/syndtr/goleveldb/leveldb/errors"
	"github.com/syndtr/goleveldb/leveldb/filter"
	"github.com/syndtr/goleveldb/leveldb/iterator"
	"github.com/syndtr/goleveldb/leveldb/opt"
	"github.com/syndtr/goleveldb/leveldb/storage"
	"github.com/syndtr/goleveldb/leveldb/table"
	"github.com/syndtr/goleveldb/leveldb/util"
	"pgregory.net/rapid"

	"verif/dbm"
	"verif/evid"
	"verif/gen"
	"verif/model"
)

// TCase is a sorted-table case.
type TCase struct {
	Cmp      string    `json:"cmp"`
	Internal bool      `json:"internal,omitempty"` // keys are internal keys ordered by the real internal comparer
	Keys     []gen.Hex `json:"keys"`               // hostile keys (deduplicated and sorted by the executor)
	SeqN     int       `json:"seqn,omitempty"`     // additional sequential family: SeqN keys "<SeqPfx>%06d"
	SeqPfx   string    `json:"seqpfx,omitempty"`
	ValLens  []int     `json:"vallens"` // value lengths, cycled
	ValFill  int       `json:"valfill,omitempty"`
	Seqs     []uint64  `json:"seqs,omitempty"` // internal mode: sequence numbers, cycled (several versions per user key)

	BlockSize  int       `json:"bs"`
	Restart    int       `json:"ri"`
	NoComp     bool      `json:"nocomp,omitempty"`
	FilterBits int       `json:"fbits,omitempty"`
	FilterBase int       `json:"fbase,omitempty"`
	Cache      int       `json:"cache,omitempty"` // 0 none, >0 LRU capacity
	BufferPool bool      `json:"bpool,omitempty"`
	ReaderAlt  bool      `json:"ralt,omitempty"` // the reader is opened with other block / restart / compression / bloom-bits / filter-base settings than the writer used
	Probes     []gen.Hex `json:"probes,omitempty"`
	Ranges     []TRange  `json:"ranges,omitempty"`
	DamageOff  int       `json:"dmgoff,omitempty"` // -1: no damage; else offset (mod checksummed length)
	DamageXor  int       `json:"dmgxor,omitempty"`
}

// TRange is a range restriction plus a walk.
type TRange struct {
	S    *int       `json:"s,omitempty"` // indexes into the probe list (nil = unbounded)
	L    *int       `json:"l,omitempty"`
	Walk []dbm.Move `json:"walk"` // seek targets index the probe list
}

type tStats struct {
	entries, blocks, restartsMax int
	innerRange, reversal         bool
	damaged, damageDetected      bool
	filterParts                  int
}

func (c *TCase) comparers() (ucmp, tcmp comparer.Comparer) {
	ucmp = gen.Comparer(c.Cmp)
	tcmp = ucmp
	if c.Internal {
		tcmp = leveldb.VerifInternalComparer(ucmp)
	}
	return
}

// materialise builds the sorted pair list.
func (c *TCase) materialise() []model.KV {
	ucmp, tcmp := c.comparers()
	_ = ucmp
	seen := map[string]bool{}
	var keys [][]byte
	add := func(k []byte) {
		if !seen[string(k)] {
			seen[string(k)] = true
			keys = append(keys, k)
		}
	}
	var ukeys [][]byte
	for _, k := range c.Keys {
		ukeys = append(ukeys, []byte(k))
	}
	for i := 0; i < c.SeqN; i++ {
		ukeys = append(ukeys, []byte(fmt.Sprintf("%s%06d", c.SeqPfx, i)))
	}
	if c.Internal && len(ukeys) == 0 {
		// The internal comparer is not part of the public API and the DB never
		// writes an empty table with it (its Successor cannot handle an absent
		// key), so the empty table is only generated for user comparers.
		ukeys = append(ukeys, []byte("only"))
	}
	if c.Internal {
		seqs := c.Seqs
		if len(seqs) == 0 {
			seqs = []uint64{1}
		}
		for i, uk := range ukeys {
			// one to three versions per user key
			nv := 1 + i%3
			for v := 0; v < nv; v++ {
				s := seqs[(i+v)%len(seqs)] + uint64(v)
				if s > leveldb.VerifKeyMaxSeq {
					s = leveldb.VerifKeyMaxSeq
				}
				add(leveldb.VerifMakeInternalKey(uk, s, uint((i+v)%2)))
			}
		}
	} else {
		for _, uk := range ukeys {
			add(uk)
		}
	}
	sort.Slice(keys, func(i, j int) bool { return tcmp.Compare(keys[i], keys[j]) < 0 })
	vl := c.ValLens
	if len(vl) == 0 {
		vl = []int{3}
	}
	kvs := make([]model.KV, len(keys))
	for i, k := range keys {
		v := gen.VSpec{Len: vl[i%len(vl)], Fill: c.ValFill, Raw: vl[i%len(vl)] == 0}.Bytes(fmt.Sprintf("v%d", i))
		kvs[i] = model.KV{K: k, V: v}
	}
	return kvs
}

func (c *TCase) options(tcmp comparer.Comparer) *opt.Options {
	o := &opt.Options{Comparer: tcmp, BlockSize: c.BlockSize, BlockRestartInterval: c.Restart, FilterBaseLg: c.FilterBase}
	if c.NoComp {
		o.Compression = opt.NoCompression
	}
	if c.FilterBits > 0 && !c.Internal {
		o.Filter = filter.NewBloomFilter(c.FilterBits)
	}
	return o
}

// readerOptions: a table describes itself (restart points and the filter base are stored in the blocks, the
// compression kind in every block trailer, the bloom probe count in the filter data), so a reader whose options
// differ from the writer's in everything but the comparer and the filter's name must answer identically.
func (c *TCase) readerOptions(tcmp comparer.Comparer) *opt.Options {
	o := c.options(tcmp)
	if !c.ReaderAlt {
		return o
	}
	o.BlockSize, o.BlockRestartInterval, o.FilterBaseLg = 4096-c.BlockSize, 17-c.Restart%16, 16-c.FilterBase
	if !c.NoComp {
		o.Compression = opt.NoCompression
	} else {
		o.Compression = opt.DefaultCompression
	}
	if o.Filter != nil {
		bits := map[int]int{1: 64, 10: 20, 64: 6}[c.FilterBits]
		if bits == 0 {
			bits = 30
		}
		o.Filter = filter.NewBloomFilter(bits)
	}
	return o
}

func (c *TCase) probe(i int) []byte {
	if len(c.Probes) == 0 {
		return []byte("p")
	}
	i %= len(c.Probes)
	p := []byte(c.Probes[i])
	if c.Internal {
		if len(p) < 8 {
			return leveldb.VerifMakeInternalKey(p, uint64(i)+1, 1)
		}
		// reuse the last byte to pick a sequence number, keep it a valid internal key
		return leveldb.VerifMakeInternalKey(p[:len(p)-1], uint64(p[len(p)-1])<<uint(i%40), uint(i%2))
	}
	return append([]byte{}, p...)
}

func openTable(c *TCase, data []byte, o *opt.Options) (*table.Reader, error) {
	var ns *cache.NamespaceGetter
	if c.Cache > 0 {
		ns = &cache.NamespaceGetter{Cache: cache.NewCache(cache.NewLRU(c.Cache)), NS: 7}
	}
	var bp *util.BufferPool
	if c.BufferPool {
		bp = util.NewBufferPool(o.GetBlockSize() + 5)
	}
	return table.NewReader(bytes.NewReader(data), int64(len(data)), storage.FileDesc{Type: storage.TypeTable, Num: 7}, ns, bp, o)
}

func walkIter(it iterator.Iterator, cur *model.Cursor, moves []dbm.Move, key func(int) []byte, st *tStats) error {
	lastDir := 0
	for n, mv := range moves {
		var got, want bool
		dir := 0
		switch mv.M {
		case "first":
			got, want = it.First(), cur.First()
		case "last":
			got, want = it.Last(), cur.Last()
		case "seek":
			k := key(mv.K)
			got, want = it.Seek(k), cur.Seek(k)
		case "next":
			got, want = it.Next(), cur.Next()
			dir = 1
		case "prev":
			got, want = it.Prev(), cur.Prev()
			dir = -1
		}
		if dir != 0 && lastDir != 0 && dir != lastDir && st != nil {
			st.reversal = true
		}
		if dir != 0 {
			lastDir = dir
		}
		if got != want {
			return fmt.Errorf("move #%d %s returned %v, cursor model says %v (model pos %d/%d, err=%v)", n, mv.M, got, want, cur.P, len(cur.L), it.Error())
		}
		if it.Valid() != want {
			return fmt.Errorf("move #%d %s: Valid()=%v, move returned %v", n, mv.M, it.Valid(), want)
		}
		if want {
			kv := cur.Cur()
			if !bytes.Equal(it.Key(), kv.K) || !bytes.Equal(it.Value(), kv.V) {
				return fmt.Errorf("move #%d %s: at %q=%.30q, cursor model at %q=%.30q", n, mv.M, it.Key(), it.Value(), kv.K, kv.V)
			}
		}
	}
	return it.Error()
}

func restrict(kvs []model.KV, cmp comparer.Comparer, s, l []byte) []model.KV {
	var r []model.KV
	for _, kv := range kvs {
		if s != nil && cmp.Compare(kv.K, s) < 0 {
			continue
		}
		if l != nil && cmp.Compare(kv.K, l) >= 0 {
			continue
		}
		r = append(r, kv)
	}
	return r
}

func runTable(c *TCase) (st tStats, err error) {
	defer func() {
		if x := recover(); x != nil {
			err = fmt.Errorf("panic: %v\n%s", x, debug.Stack())
		}
	}()
	_, tcmp := c.comparers()
	kvs := c.materialise()
	st.entries = len(kvs)
	o := c.options(tcmp)
	var buf bytes.Buffer
	var bp *util.BufferPool
	if c.BufferPool {
		bp = util.NewBufferPool(o.GetBlockSize() + 5)
	}
	w := table.NewWriter(&buf, o, bp, 0)
	for _, kv := range kvs {
		if err := w.Append(kv.K, kv.V); err != nil {
			return st, fmt.Errorf("Append(%q): %v", kv.K, err)
		}
	}
	if err := w.Close(); err != nil {
		return st, fmt.Errorf("writer Close: %v", err)
	}
	st.blocks = w.BlocksLen()
	if w.EntriesLen() != len(kvs) {
		return st, fmt.Errorf("EntriesLen %d, appended %d", w.EntriesLen(), len(kvs))
	}
	if w.BytesLen() != buf.Len() {
		return st, fmt.Errorf("BytesLen %d, written %d", w.BytesLen(), buf.Len())
	}
	data := buf.Bytes()
	if c.FilterBits > 0 && !c.Internal && c.FilterBase > 0 {
		st.filterParts = len(data)>>uint(c.FilterBase) + 1
	}
	ri := o.GetBlockRestartInterval()
	if st.blocks > 0 {
		st.restartsMax = (len(kvs)/st.blocks + ri - 1) / ri
	}

	ro := c.readerOptions(tcmp)
	tr, err := openTable(c, data, ro)
	if err != nil {
		return st, fmt.Errorf("NewReader on an undamaged table: %v", err)
	}
	// exact lookups of all stored keys (bounded), Find / FindKey / filtered variants
	step := 1
	if len(kvs) > 400 {
		step = len(kvs) / 400
	}
	for i := 0; i < len(kvs); i += step {
		kv := kvs[i]
		v, err := tr.Get(kv.K, nil)
		if err != nil || !bytes.Equal(v, kv.V) {
			return st, fmt.Errorf("Get(%q) = %.30q, %v; stored %.30q", kv.K, v, err, kv.V)
		}
		for _, filtered := range []bool{false, true} {
			rk, rv, err := tr.Find(kv.K, filtered, nil)
			if err != nil || !bytes.Equal(rk, kv.K) || !bytes.Equal(rv, kv.V) {
				return st, fmt.Errorf("Find(%q, filtered=%v) = %q, %.30q, %v; stored pair expected", kv.K, filtered, rk, rv, err)
			}
			rk, err = tr.FindKey(kv.K, filtered, nil)
			if err != nil || !bytes.Equal(rk, kv.K) {
				return st, fmt.Errorf("FindKey(%q, filtered=%v) = %q, %v", kv.K, filtered, rk, err)
			}
		}
	}
	// probes: first pair >= probe
	var lastOff int64 = -1
	var sortedProbes [][]byte
	for i := range c.Probes {
		sortedProbes = append(sortedProbes, c.probe(i))
	}
	for _, kv := range kvs {
		if len(sortedProbes) < 200 {
			sortedProbes = append(sortedProbes, kv.K)
		}
	}
	// the separators the writer may have put into the index block: keys that lie between two
	// adjacent stored keys (or after the last one) without being stored
	for i := 0; i < len(kvs) && len(sortedProbes) < 400; i++ {
		var sp []byte
		if i+1 < len(kvs) {
			sp = tcmp.Separator(nil, kvs[i].K, kvs[i+1].K)
		} else {
			sp = tcmp.Successor(nil, kvs[i].K)
		}
		if sp != nil {
			sortedProbes = append(sortedProbes, sp)
		}
	}
	sort.Slice(sortedProbes, func(i, j int) bool { return tcmp.Compare(sortedProbes[i], sortedProbes[j]) < 0 })
	for _, p := range sortedProbes {
		idx := sort.Search(len(kvs), func(i int) bool { return tcmp.Compare(kvs[i].K, p) >= 0 })
		for _, filtered := range []bool{false, true} {
			fk, ferr := tr.FindKey(p, filtered, nil)
			isStored := idx < len(kvs) && tcmp.Compare(kvs[idx].K, p) == 0
			switch {
			case ferr == nil:
				if idx == len(kvs) {
					return st, fmt.Errorf("FindKey(%q, filtered=%v) = %q; no stored key >= probe exists", p, filtered, fk)
				}
				if !bytes.Equal(fk, kvs[idx].K) {
					return st, fmt.Errorf("FindKey(%q, filtered=%v) = %q; the first stored key >= probe is %q", p, filtered, fk, kvs[idx].K)
				}
			case ferr == table.ErrNotFound:
				if idx < len(kvs) && (!filtered || isStored) {
					return st, fmt.Errorf("FindKey(%q, filtered=%v) says not found; the first stored key >= probe is %q", p, filtered, kvs[idx].K)
				}
			default:
				return st, fmt.Errorf("FindKey(%q, filtered=%v): %v", p, filtered, ferr)
			}
		}
		rk, rv, err := tr.Find(p, false, nil)
		if idx == len(kvs) {
			if err != table.ErrNotFound {
				return st, fmt.Errorf("Find(%q) = %q, %v; no pair >= probe exists", p, rk, err)
			}
		} else if err != nil || !bytes.Equal(rk, kvs[idx].K) || !bytes.Equal(rv, kvs[idx].V) {
			return st, fmt.Errorf("Find(%q) = %q, %v; first pair >= probe is %q", p, rk, err, kvs[idx].K)
		}
		// filtered lookups may answer not-found for keys that are not stored, never for stored ones
		rk, _, err = tr.Find(p, true, nil)
		stored := idx < len(kvs) && tcmp.Compare(kvs[idx].K, p) == 0
		switch {
		case err == nil:
			if idx == len(kvs) || !bytes.Equal(rk, kvs[idx].K) {
				return st, fmt.Errorf("Find(%q, filtered) = %q; wrong pair", p, rk)
			}
		case err == table.ErrNotFound:
			if stored {
				return st, fmt.Errorf("Find(%q, filtered) says not found for a stored key", p)
			}
		default:
			return st, fmt.Errorf("Find(%q, filtered): %v", p, err)
		}
		v, err := tr.Get(p, nil)
		if stored {
			if err != nil || !bytes.Equal(v, kvs[idx].V) {
				return st, fmt.Errorf("Get(%q) = %.30q, %v; stored", p, v, err)
			}
		} else if err != table.ErrNotFound {
			return st, fmt.Errorf("Get(%q) = %.30q, %v; key is not stored", p, v, err)
		}
		off, err := tr.OffsetOf(p)
		if err != nil {
			return st, fmt.Errorf("OffsetOf(%q): %v", p, err)
		}
		if off < lastOff || off > int64(len(data)) {
			return st, fmt.Errorf("OffsetOf(%q) = %d after %d for a smaller key (file size %d)", p, off, lastOff, len(data))
		}
		lastOff = off
	}
	// ranges and walks
	ranges := append([]TRange{{Walk: []dbm.Move{{M: "first"}}}}, c.Ranges...)
	for ri, r := range ranges {
		var s, l []byte
		if r.S != nil {
			s = c.probe(*r.S)
		}
		if r.L != nil {
			l = c.probe(*r.L)
		}
		if s != nil && l != nil && tcmp.Compare(s, l) > 0 {
			s, l = l, s
		}
		var slice *util.Range
		if s != nil || l != nil {
			slice = &util.Range{Start: s, Limit: l}
		}
		want := restrict(kvs, tcmp, s, l)
		if s != nil && l != nil && len(want) > 0 && len(want) < len(kvs) {
			st.innerRange = true
		}
		it := tr.NewIterator(slice, nil)
		if err := walkIter(it, model.NewCursor(want, tcmp.Compare), r.Walk, c.probe, &st); err != nil {
			it.Release()
			return st, fmt.Errorf("range #%d [%q,%q): %v", ri, s, l, err)
		}
		// full passes
		var fwd []model.KV
		for ok := it.First(); ok; ok = it.Next() {
			fwd = append(fwd, model.KV{K: append([]byte{}, it.Key()...), V: append([]byte{}, it.Value()...)})
		}
		n := 0
		for ok := it.Last(); ok; ok = it.Prev() {
			n++
			j := len(want) - n
			if j < 0 || !bytes.Equal(it.Key(), want[j].K) || !bytes.Equal(it.Value(), want[j].V) {
				it.Release()
				return st, fmt.Errorf("range #%d [%q,%q): backward pass pair #%d is %q", ri, s, l, n, it.Key())
			}
		}
		ierr := it.Error()
		it.Release()
		if ierr != nil {
			return st, fmt.Errorf("range #%d [%q,%q): iterator error %v", ri, s, l, ierr)
		}
		if n != len(want) || len(fwd) != len(want) {
			return st, fmt.Errorf("range #%d [%q,%q): forward pass %d pairs, backward %d, expected %d", ri, s, l, len(fwd), n, len(want))
		}
		for i := range want {
			if !bytes.Equal(fwd[i].K, want[i].K) || !bytes.Equal(fwd[i].V, want[i].V) {
				return st, fmt.Errorf("range #%d: forward pass pair #%d is %q, expected %q", ri, i, fwd[i].K, want[i].K)
			}
		}
	}
	tr.Release()

	// single-byte alteration inside a checksummed block
	if c.DamageOff >= 0 && len(data) > 48 && c.DamageXor%256 != 0 {
		st.damaged = true
		d := append([]byte{}, data...)
		off := c.DamageOff % (len(data) - 48)
		d[off] ^= byte(c.DamageXor)
		tr, err := openTable(c, d, ro)
		if err != nil {
			if !errors.IsCorrupted(err) {
				return st, fmt.Errorf("damaged table: NewReader returned a non-corruption error: %v", err)
			}
			st.damageDetected = true
			return st, nil
		}
		defer tr.Release()
		for i := 0; i < len(kvs); i += step {
			kv := kvs[i]
			v, err := tr.Get(kv.K, nil)
			if err == nil {
				if !bytes.Equal(v, kv.V) {
					return st, fmt.Errorf("damaged table (byte %d ^ %#x): Get(%q) returned %.30q without error, stored %.30q", off, c.DamageXor, kv.K, v, kv.V)
				}
			} else if err == table.ErrNotFound {
				return st, fmt.Errorf("damaged table (byte %d ^ %#x): Get(%q) says not found for a stored key instead of reporting corruption", off, c.DamageXor, kv.K)
			} else {
				st.damageDetected = true
			}
			// filtered lookups (the path DB.Get uses) must behave the same way
			rk, rv, err := tr.Find(kv.K, true, nil)
			if err == nil {
				if !bytes.Equal(rk, kv.K) || !bytes.Equal(rv, kv.V) {
					return st, fmt.Errorf("damaged table (byte %d ^ %#x): Find(%q, filtered) returned %q=%.30q without error", off, c.DamageXor, kv.K, rk, rv)
				}
			} else if err == table.ErrNotFound {
				return st, fmt.Errorf("damaged table (byte %d ^ %#x): Find(%q, filtered) says not found for a stored key instead of reporting corruption", off, c.DamageXor, kv.K)
			}
		}
		it := tr.NewIterator(nil, nil)
		pos := 0
		cnt := 0
		for it.Next() {
			found := false
			for pos < len(kvs) {
				if bytes.Equal(kvs[pos].K, it.Key()) {
					found = true
					break
				}
				pos++
			}
			if !found {
				it.Release()
				return st, fmt.Errorf("damaged table (byte %d ^ %#x): scan yielded key %q which is not an original key in order", off, c.DamageXor, it.Key())
			}
			if !bytes.Equal(kvs[pos].V, it.Value()) {
				it.Release()
				return st, fmt.Errorf("damaged table (byte %d ^ %#x): scan yielded key %q with a value that was never stored under it", off, c.DamageXor, it.Key())
			}
			pos++
			cnt++
		}
		ierr := it.Error()
		it.Release()
		if ierr != nil {
			st.damageDetected = true
		} else if cnt != len(kvs) {
			return st, fmt.Errorf("damaged table (byte %d ^ %#x): scan yielded %d of %d pairs and reported no error", off, c.DamageXor, cnt, len(kvs))
		}
	}
	return st, nil
}

func drawTCase(t *rapid.T) *TCase {
	c := &TCase{}
	c.Cmp = rapid.SampledFrom([]string{"bytewise", "bytewise", "inv", "inv-nil", "inv-same", "xor55", "lenfirst", "revstr"}).Draw(t, "cmp")
	c.Internal = rapid.IntRange(0, 3).Draw(t, "internal") == 0
	nk := rapid.SampledFrom([]int{20, 5, 60, 2, 1, 0}).Draw(t, "nk")
	if nk > 0 {
		c.Keys = gen.DrawKeyPool(t, nk, nk+10)
	}
	c.SeqN = rapid.SampledFrom([]int{200, 30, 0, 1, 200, 0, 1000, 2000}).Draw(t, "seqn")
	c.SeqPfx = rapid.SampledFrom([]string{"", "k", "pppppppppppppppppppppppppppppppppppppppp", "\xff\xff"}).Draw(t, "seqpfx")
	c.ValLens = rapid.SliceOfN(rapid.SampledFrom([]int{0, 0, 1, 8, 30, 100, 300, 1000, 5000}), 1, 4).Draw(t, "vallens")
	if c.SeqN >= 1000 {
		for i := range c.ValLens {
			if c.ValLens[i] > 100 {
				c.ValLens[i] = 100
			}
		}
	}
	c.ValFill = rapid.IntRange(0, 1).Draw(t, "valfill")
	if c.Internal {
		c.Seqs = rapid.SliceOfN(rapid.SampledFrom([]uint64{0, 1, 2, 255, 256, 1 << 32, 1<<56 - 3}), 1, 4).Draw(t, "seqs")
	}
	c.BlockSize = rapid.SampledFrom([]int{256, 64, 32, 1, 1024, 4096, 0}).Draw(t, "bs")
	c.Restart = rapid.SampledFrom([]int{2, 3, 1, 0, 16, 64}).Draw(t, "ri")
	c.NoComp = rapid.Bool().Draw(t, "nocomp")
	c.FilterBits = rapid.SampledFrom([]int{0, 0, 1, 10, 64}).Draw(t, "fbits")
	c.FilterBase = rapid.SampledFrom([]int{0, 5, 6, 8, 11, 14}).Draw(t, "fbase")
	c.Cache = rapid.SampledFrom([]int{0, 0, 1, 4096, 1 << 20}).Draw(t, "cache")
	c.BufferPool = rapid.Bool().Draw(t, "bpool")
	c.ReaderAlt = rapid.IntRange(0, 2).Draw(t, "ralt") == 0
	np := rapid.IntRange(2, 12).Draw(t, "np")
	c.Probes = gen.DrawKeyPool(t, np, np+4)
	if c.SeqN > 0 {
		// probes between and equal to sequential keys
		for i := 0; i < 4; i++ {
			n := rapid.IntRange(0, c.SeqN).Draw(t, "pseq")
			sfx := rapid.SampledFrom([]string{"", "0", "\x00", "\xff"}).Draw(t, "psfx")
			c.Probes = append(c.Probes, gen.Hex(fmt.Sprintf("%s%06d%s", c.SeqPfx, n, sfx)))
		}
	}
	npr := len(c.Probes)
	rg := rapid.Custom(func(t *rapid.T) TRange {
		var r TRange
		if rapid.IntRange(0, 9).Draw(t, "rs") >= 3 {
			v := rapid.IntRange(0, npr-1).Draw(t, "rsi")
			r.S = &v
		}
		if rapid.IntRange(0, 9).Draw(t, "rl") >= 3 {
			v := rapid.IntRange(0, npr-1).Draw(t, "rli")
			r.L = &v
		}
		r.Walk = dbm.DrawWalk(t, npr, 40)
		return r
	})
	c.Ranges = rapid.SliceOfN(rg, 1, 5).Draw(t, "ranges")
	if rapid.IntRange(0, 2).Draw(t, "dmg") == 0 {
		c.DamageOff = -1
	} else {
		c.DamageOff = rapid.IntRange(0, 1<<22).Draw(t, "dmgoff")
		c.DamageXor = rapid.SampledFrom([]int{1, 2, 0x80, 0xff, 0x55}).Draw(t, "dmgxor")
	}
	return c
}

func tClassify(c *TCase, st tStats) (bool, []string) {
	var cl []string
	add := func(ok bool, s string) {
		if ok {
			cl = append(cl, s)
		}
	}
	add(st.entries == 0, "empty-table")
	add(st.entries == 1, "single-entry")
	add(st.blocks >= 2, "blocks>=2")
	add(st.restartsMax >= 2, "restarts>=2")
	add(c.ReaderAlt, "reader-options-differ-from-writer")
	add(st.innerRange, "inner-range")
	add(st.reversal, "reversal")
	add(c.Internal, "internal-comparer")
	add(c.Cmp != "bytewise", "custom-comparer")
	add(st.damaged, "damaged")
	add(st.damageDetected, "damage-detected")
	add(st.filterParts >= 3, "filter-partitions>=3")
	add(c.Cache > 0, "block-cache")
	add(c.BufferPool, "buffer-pool")
	return st.blocks >= 2 && st.restartsMax >= 2 && st.innerRange && st.reversal, cl
}

// C13: sorted tables round-trip under all layouts and detect block damage.
func TestC13(t *testing.T) {
	if replayFile() != "" {
		c := &TCase{}
		if err := loadReplay(c); err != nil {
			t.Fatal(err)
		}
		if _, err := runTable(c); err != nil {
			t.Fatalf("replay failed: %v", err)
		}
		return
	}
	rec := evid.New("C13")
	defer rec.Flush()
	rapid.Check(t, func(rt *rapid.T) {
		c := drawTCase(rt)
		st, err := runTable(c)
		if err != nil {
			reportFail("C13", c, err)
			rt.Fatalf("C13 violated: %v", err)
		}
		nt, cl := tClassify(c, st)
		rec.Case(evid.FP(c), nt, cl...)
		rec.Add("entries", st.entries)
		if nt && rec.WantSample() {
			rec.Sample(c)
		}
	})
}
