package checks

import (
	"bytes"
	"fmt"
	"runtime"
	"sort"
	"strings"
	"sync"
	"sync/atomic"
	"testing"
	"time"

	"github.com/anishathalye/porcupine"
	"github.com/syndtr/goleveldb/leveldb"
	"github.com/syndtr/goleveldb/leveldb/iterator"
	"github.com/syndtr/goleveldb/leveldb/opt"
	"github.com/syndtr/goleveldb/leveldb/util"
	"pgregory.net/rapid"

	"verif/dbm"
	"verif/evid"
	"verif/gen"
	"verif/vfs"
)

// ---------------------------------------------------------------- C05

// PCase is a concurrent program.
type PCase struct {
	Opts    gen.OptSpec    `json:"opts"`
	NKeys   int            `json:"nkeys"`
	Clients [][]POp        `json:"clients"`
	Yield   map[string]int `json:"yield"` // point -> probability (percent) of yielding there
	Sleep   int            `json:"sleep"` // max microseconds to sleep at a yield (0: Gosched only)
	Procs   int            `json:"procs"`
	Seed    uint64         `json:"seed"`
	History []string       `json:"history,omitempty"` // failing history (for the record)
}

// POp: put del batch get snapscan iterscan tr (OpenTransaction+writes+Commit)
type POp struct {
	T string `json:"t"`
	K int    `json:"k,omitempty"`
	B []PBOp `json:"b,omitempty"`
	N int    `json:"n,omitempty"` // value padding
	S bool   `json:"s,omitempty"` // sync / NoWriteMerge toggle
}

// PBOp is a batch element.
type PBOp struct {
	K   int  `json:"k"`
	Del bool `json:"del,omitempty"`
}

type linIn struct {
	kind int               // 0 write, 1 get, 2 cut
	w    map[string]string // "" = delete
	k    string
}
type linOut struct {
	v   string
	cut string
}

func encState(m map[string]string) string {
	ks := make([]string, 0, len(m))
	for k, v := range m {
		if v != "" {
			ks = append(ks, k+"="+v)
		}
	}
	sort.Strings(ks)
	return strings.Join(ks, ",")
}
func decState(s string) map[string]string {
	m := map[string]string{}
	if s == "" {
		return m
	}
	for _, kv := range strings.Split(s, ",") {
		p := strings.SplitN(kv, "=", 2)
		m[p[0]] = p[1]
	}
	return m
}

var kvModel = porcupine.Model{
	Init: func() interface{} { return "" },
	Step: func(state, input, output interface{}) (bool, interface{}) {
		st := state.(string)
		i := input.(linIn)
		o := output.(linOut)
		switch i.kind {
		case 0:
			m := decState(st)
			for k, v := range i.w {
				if v == "" {
					delete(m, k)
				} else {
					m[k] = v
				}
			}
			return true, encState(m)
		case 1:
			return decState(st)[i.k] == o.v, st
		case 3:
			_, present := decState(st)[i.k]
			return fmt.Sprint(present) == o.v, st
		default:
			return st == o.cut, st
		}
	},
	Equal: func(a, b interface{}) bool { return a.(string) == b.(string) },
	DescribeOperation: func(input, output interface{}) string {
		i := input.(linIn)
		o := output.(linOut)
		switch i.kind {
		case 0:
			return fmt.Sprintf("write %v", i.w)
		case 1:
			return fmt.Sprintf("get %s -> %q", i.k, o.v)
		case 3:
			return fmt.Sprintf("has %s -> %s", i.k, o.v)
		}
		return fmt.Sprintf("cut -> {%s}", o.cut)
	},
}

type pStats struct {
	ops, merged, flushes int
	overlapWR            bool
	unknown              bool
	trs                  int
}

type yielder struct {
	plan  map[string]int
	sleep int
	x     uint64
}

func (y *yielder) at(point string) {
	p := y.plan[point]
	if p == 0 {
		return
	}
	x := atomic.AddUint64(&y.x, 0x9e3779b97f4a7c15)
	x ^= x >> 31
	x *= 0xbf58476d1ce4e5b9
	x ^= x >> 29
	if int(x%100) >= p {
		return
	}
	if y.sleep > 0 && (x>>8)%3 == 0 {
		time.Sleep(time.Duration((x>>16)%uint64(y.sleep)+1) * time.Microsecond)
	} else {
		runtime.Gosched()
	}
}

func runProgram(c *PCase) (st pStats, err error) {
	if c.Procs > 0 {
		defer runtime.GOMAXPROCS(runtime.GOMAXPROCS(c.Procs))
	}
	fs := vfs.New()
	o := c.Opts.Build("bytewise")
	db, err := leveldb.Open(fs, o)
	if err != nil {
		return st, fmt.Errorf("Open: %v", err)
	}
	y := &yielder{plan: c.Yield, sleep: c.Sleep, x: c.Seed}
	leveldb.VerifSetYield(y.at)
	var merged int64
	leveldb.VerifSetTrace(func(ev string, key []byte, n int) {
		if ev == "merge-accepted" {
			atomic.AddInt64(&merged, 1)
		}
	})
	defer func() {
		leveldb.VerifSetYield(nil)
		leveldb.VerifSetTrace(nil)
		db.Close()
	}()
	key := func(i int) string { return fmt.Sprintf("k%d", i%c.NKeys) }
	start := time.Now()
	var mu sync.Mutex
	var ops []porcupine.Operation
	var firstErr atomic.Value
	var wg sync.WaitGroup
	record := func(cid int, in linIn, out linOut, call, ret int64) {
		mu.Lock()
		ops = append(ops, porcupine.Operation{ClientId: cid, Input: in, Call: call, Output: out, Return: ret})
		mu.Unlock()
	}
	scan := func(it iterator.Iterator, backward bool) (string, error) {
		m := map[string]string{}
		if backward {
			// the same cut must come out walking from the end
			for ok := it.Last(); ok; ok = it.Prev() {
				m[string(it.Key())] = strings.SplitN(string(it.Value()), "|", 2)[0]
			}
		}
		for !backward && it.Next() {
			m[string(it.Key())] = strings.SplitN(string(it.Value()), "|", 2)[0]
		}
		e := it.Error()
		it.Release()
		return encState(m), e
	}
	for cid, prog := range c.Clients {
		wg.Add(1)
		go func(cid int, prog []POp) {
			defer wg.Done()
			defer func() {
				if x := recover(); x != nil {
					firstErr.CompareAndSwap(nil, fmt.Errorf("client %d panicked: %v", cid, x))
				}
			}()
			for i, op := range prog {
				val := func(j int) string { return fmt.Sprintf("c%d.%d.%d", cid, i, j) }
				pad := strings.Repeat("x", op.N)
				wo := &opt.WriteOptions{Sync: op.S, NoWriteMerge: op.S && i%2 == 0}
				call := int64(time.Since(start))
				switch op.T {
				case "put":
					v := val(0)
					e := db.Put([]byte(key(op.K)), []byte(v+"|"+pad), wo)
					if e != nil {
						firstErr.CompareAndSwap(nil, fmt.Errorf("client %d Put: %v", cid, e))
						return
					}
					record(cid, linIn{kind: 0, w: map[string]string{key(op.K): v}}, linOut{}, call, int64(time.Since(start)))
				case "del":
					e := db.Delete([]byte(key(op.K)), wo)
					if e != nil {
						firstErr.CompareAndSwap(nil, fmt.Errorf("client %d Delete: %v", cid, e))
						return
					}
					record(cid, linIn{kind: 0, w: map[string]string{key(op.K): ""}}, linOut{}, call, int64(time.Since(start)))
				case "batch", "tr":
					b := new(leveldb.Batch)
					w := map[string]string{}
					for j, bo := range op.B {
						k := key(bo.K)
						if bo.Del {
							b.Delete([]byte(k))
							w[k] = ""
						} else {
							v := val(j)
							b.Put([]byte(k), []byte(v+"|"+pad))
							w[k] = v
						}
					}
					var e error
					if op.T == "tr" {
						var tr *leveldb.Transaction
						tr, e = db.OpenTransaction()
						if e == nil {
							if e = tr.Write(b, nil); e == nil {
								call = int64(time.Since(start)) // takes effect between Commit's call and return
								e = tr.Commit()
							}
							if e != nil {
								tr.Discard()
							}
						}
					} else {
						e = db.Write(b, wo)
					}
					if e != nil {
						firstErr.CompareAndSwap(nil, fmt.Errorf("client %d %s: %v", cid, op.T, e))
						return
					}
					record(cid, linIn{kind: 0, w: w}, linOut{}, call, int64(time.Since(start)))
				case "get":
					v, e := db.Get([]byte(key(op.K)), nil)
					ret := int64(time.Since(start))
					if e != nil && e != leveldb.ErrNotFound {
						firstErr.CompareAndSwap(nil, fmt.Errorf("client %d Get: %v", cid, e))
						return
					}
					record(cid, linIn{kind: 1, k: key(op.K)}, linOut{v: strings.SplitN(string(v), "|", 2)[0]}, call, ret)
				case "snapscan":
					s, e := db.GetSnapshot()
					ret := int64(time.Since(start))
					if e != nil {
						firstErr.CompareAndSwap(nil, fmt.Errorf("client %d GetSnapshot: %v", cid, e))
						return
					}
					// a point read and a scan through the same snapshot must agree with one instant
					time.Sleep(time.Duration(op.N%50) * time.Microsecond)
					cut, e := scan(s.NewIterator(nil, nil), i%2 == 1)
					s.Release()
					if e != nil {
						firstErr.CompareAndSwap(nil, fmt.Errorf("client %d snapshot scan: %v", cid, e))
						return
					}
					record(cid, linIn{kind: 2}, linOut{cut: cut}, call, ret)
				case "snapget":
					// the same cut, read through Snapshot.Get / Has of every key a little later
					sn, e := db.GetSnapshot()
					ret := int64(time.Since(start))
					if e != nil {
						firstErr.CompareAndSwap(nil, fmt.Errorf("client %d GetSnapshot: %v", cid, e))
						return
					}
					time.Sleep(time.Duration(op.N%200) * time.Microsecond)
					m := map[string]string{}
					for k := 0; k < c.NKeys; k++ {
						v, e := sn.Get([]byte(key(k)), nil)
						h, he := sn.Has([]byte(key(k)), nil)
						if (e != nil && e != leveldb.ErrNotFound) || he != nil {
							firstErr.CompareAndSwap(nil, fmt.Errorf("client %d Snapshot.Get/Has: %v %v", cid, e, he))
							sn.Release()
							return
						}
						if h != (e == nil) {
							firstErr.CompareAndSwap(nil, fmt.Errorf("client %d: Snapshot.Has(%s)=%v but Get err=%v", cid, key(k), h, e))
							sn.Release()
							return
						}
						if e == nil {
							m[key(k)] = strings.SplitN(string(v), "|", 2)[0]
						}
					}
					sn.Release()
					record(cid, linIn{kind: 2}, linOut{cut: encState(m)}, call, ret)
				case "compact":
					// changes no contents: not part of the history, but it rotates the write
					// buffer and rewrites tables under the other clients' feet
					if e := db.CompactRange(util.Range{}); e != nil {
						firstErr.CompareAndSwap(nil, fmt.Errorf("client %d CompactRange: %v", cid, e))
						return
					}
				case "has":
					h, e := db.Has([]byte(key(op.K)), nil)
					ret := int64(time.Since(start))
					if e != nil {
						firstErr.CompareAndSwap(nil, fmt.Errorf("client %d Has: %v", cid, e))
						return
					}
					record(cid, linIn{kind: 3, k: key(op.K)}, linOut{v: fmt.Sprint(h)}, call, ret)
				case "iterscan":
					it := db.NewIterator(nil, nil)
					ret := int64(time.Since(start))
					time.Sleep(time.Duration(op.N%50) * time.Microsecond)
					cut, e := scan(it, i%2 == 1)
					if e != nil {
						firstErr.CompareAndSwap(nil, fmt.Errorf("client %d iterator scan: %v", cid, e))
						return
					}
					record(cid, linIn{kind: 2}, linOut{cut: cut}, call, ret)
				}
			}
		}(cid, prog)
	}
	done := make(chan struct{})
	go func() { wg.Wait(); close(done) }()
	select {
	case <-done:
	case <-time.After(60 * time.Second):
		return st, fmt.Errorf("concurrent program did not finish within 60s\n%s", goroutineDump())
	}
	if e := firstErr.Load(); e != nil {
		return st, e.(error)
	}
	st.ops = len(ops)
	st.merged = int(atomic.LoadInt64(&merged))
	var s leveldb.DBStats
	if db.Stats(&s) == nil {
		st.flushes = int(s.MemComp)
	}
	for i := range ops {
		for j := range ops {
			a, b := ops[i], ops[j]
			if a.Input.(linIn).kind == 0 && b.Input.(linIn).kind != 0 && a.Call < b.Return && b.Call < a.Return {
				st.overlapWR = true
			}
		}
		if st.overlapWR {
			break
		}
	}
	res, info := porcupine.CheckOperationsVerbose(kvModel, ops, 8*time.Second)
	switch res {
	case porcupine.Unknown:
		st.unknown = true
	case porcupine.Illegal:
		_ = info
		sort.Slice(ops, func(i, j int) bool { return ops[i].Call < ops[j].Call })
		var h []string
		for _, op := range ops {
			h = append(h, fmt.Sprintf("client %d [%d,%d] %s", op.ClientId, op.Call/1000, op.Return/1000, kvModel.DescribeOperation(op.Input, op.Output)))
		}
		c.History = h
		if len(h) > 60 {
			h = append(h[:30], append([]string{"…"}, h[len(h)-30:]...)...)
		}
		return st, fmt.Errorf("the recorded history of %d operations is not linearizable (no order of the writes, reads and snapshot/iterator cuts consistent with real time explains the results):\n%s", len(ops), strings.Join(h, "\n"))
	}
	return st, nil
}

var yieldPoints = []string{"get:seq-mems", "get:mems-version", "iter:seq-mems", "iter:mems-version", "write:journal-mem", "write:mem-seq", "write:after-seq",
	"write:merged", "write:ack", "write:handoff", "mcomp:commit-drop", "tr:commit-seq", "newmem:before-lock", "dropfrozen:before-lock"}

func drawPCase(t *rapid.T) *PCase {
	c := &PCase{}
	c.Opts = gen.OptSpec{WriteBuffer: rapid.SampledFrom([]int{256, 512, 1024, 4096}).Draw(t, "wb"), TableSize: 1024, TotalSize: 4096, BlockSize: 256,
		L0Trigger: rapid.SampledFrom([]int{1, 2, 4}).Draw(t, "l0"), L0Slowdown: 8, L0Pause: 12, DisableBackoff: true,
		NoWriteMerge: rapid.IntRange(0, 5).Draw(t, "nomerge") == 0, DisableLargeBatch: rapid.Bool().Draw(t, "nolbt"),
		DisableSeeksComp: rapid.Bool().Draw(t, "noseek"), OpenFilesCap: rapid.SampledFrom([]int{0, 2}).Draw(t, "ofc")}
	c.NKeys = rapid.IntRange(2, 6).Draw(t, "nkeys")
	nc := rapid.IntRange(2, 6).Draw(t, "clients")
	kinds := []string{"put", "put", "put", "del", "batch", "batch", "get", "get", "has", "snapscan", "snapget", "iterscan", "tr", "compact"}
	og := rapid.Custom(func(t *rapid.T) POp {
		op := POp{T: rapid.SampledFrom(kinds).Draw(t, "op"), K: rapid.IntRange(0, c.NKeys-1).Draw(t, "k")}
		op.N = rapid.SampledFrom([]int{0, 10, 100, 300, 1200}).Draw(t, "n")
		op.S = rapid.IntRange(0, 5).Draw(t, "s") == 0
		if op.T == "tr" && rapid.IntRange(0, 2).Draw(t, "trrare") != 0 {
			op.T = "batch"
		}
		if op.T == "batch" || op.T == "tr" {
			n := rapid.IntRange(2, 4).Draw(t, "bn")
			seen := map[int]bool{}
			for j := 0; j < n; j++ {
				k := rapid.IntRange(0, c.NKeys-1).Draw(t, "bk")
				if seen[k] {
					continue
				}
				seen[k] = true
				op.B = append(op.B, PBOp{K: k, Del: rapid.IntRange(0, 4).Draw(t, "bdel") == 0})
			}
		}
		return op
	})
	total := 0
	for i := 0; i < nc; i++ {
		prog := rapid.SliceOfN(og, 8, 40).Draw(t, "prog")
		total += len(prog)
		if total > 150 {
			prog = prog[:8]
		}
		c.Clients = append(c.Clients, prog)
	}
	c.Yield = map[string]int{}
	for _, p := range yieldPoints {
		c.Yield[p] = rapid.SampledFrom([]int{0, 0, 10, 50, 100}).Draw(t, "y")
	}
	c.Sleep = rapid.SampledFrom([]int{0, 20, 200}).Draw(t, "sleep")
	c.Procs = rapid.SampledFrom([]int{0, 1, 2, 4}).Draw(t, "procs")
	c.Seed = rapid.Uint64().Draw(t, "seed")
	return c
}

// C05: concurrent use is linearizable; readers see consistent cuts.
func TestC05(t *testing.T) {
	if replayFile() != "" {
		c := &PCase{}
		if err := loadReplay(c); err != nil {
			t.Fatal(err)
		}
		for i := 0; i < envInt("VERIF_REPLAY_RUNS", 200); i++ {
			if _, err := runProgram(c); err != nil {
				t.Fatalf("replay failed (run %d): %v", i, err)
			}
		}
		return
	}
	rec := evid.New("C05")
	defer rec.Flush()
	rapid.Check(t, func(rt *rapid.T) {
		c := drawPCase(rt)
		saveJSON("VERIF_INFLIGHT", c)
		for rep := 0; rep < 3; rep++ { // three schedules per program
			st, err := runProgram(c)
			if err != nil {
				reportFail("C05", c, err)
				rt.Fatalf("C05 violated: %v", err)
			}
			var cl []string
			add := func(ok bool, s string) {
				if ok {
					cl = append(cl, s)
				}
			}
			add(st.merged > 0, "merged-write-group")
			add(st.flushes > 0, "flush-during-run")
			add(st.overlapWR, "write-overlaps-read-or-cut")
			add(st.unknown, "inconclusive-checker-timeout")
			if st.unknown {
				rec.Add("inconclusive", 1)
			}
			nt := st.overlapWR && st.flushes > 0 && !st.unknown
			cc := *c
			cc.Seed += uint64(rep)
			rec.Case(evid.FP(&cc), nt, cl...)
			rec.Add("operations", st.ops)
			if nt && st.merged > 0 && rec.WantSample() {
				rec.Sample(map[string]any{"clients": len(c.Clients), "ops": st.ops, "yield": c.Yield, "procs": c.Procs, "first_client": c.Clients[0][:minInt(6, len(c.Clients[0]))], "merged_writes": st.merged, "flushes": st.flushes})
			}
		}
	})
}

// ---------------------------------------------------------------- C10

// WCase is a writer-protocol case.
type WCase struct {
	Opts    gen.OptSpec    `json:"opts"`
	Writers [][]WOp        `json:"writers"`
	Racer   string         `json:"racer,omitempty"` // none|close|tr|compact|setro
	RaceAt  int            `json:"raceat,omitempty"`
	Fault   *vfs.Fault     `json:"fault,omitempty"`
	Yield   map[string]int `json:"yield"`
	Sleep   int            `json:"sleep"`
	Procs   int            `json:"procs"`
	Seed    uint64         `json:"seed"`
	Trace   []string       `json:"trace,omitempty"`
}

// WOp is one write of a writer: put / del / batch of N ops with values of Size bytes.
type WOp struct {
	T     string `json:"t"`
	N     int    `json:"n,omitempty"`
	Size  int    `json:"size,omitempty"`
	Sync  bool   `json:"sync,omitempty"`
	NoMrg bool   `json:"nomerge,omitempty"`
}

type traceEv struct {
	ev  string
	key string
	n   int
}

type wStats struct {
	groupsObserved                        int
	groups, multi, handoffs, failedGroups int
	racer                                 bool
}

func runWriters(c *WCase) (st wStats, err error) {
	if c.Procs > 0 {
		defer runtime.GOMAXPROCS(runtime.GOMAXPROCS(c.Procs))
	}
	fs := vfs.New()
	o := c.Opts.Build("bytewise")
	db, err := leveldb.Open(fs, o)
	if err != nil {
		return st, fmt.Errorf("Open: %v", err)
	}
	y := &yielder{plan: c.Yield, sleep: c.Sleep, x: c.Seed}
	leveldb.VerifSetYield(y.at)
	var tmu sync.Mutex
	var trace []traceEv
	leveldb.VerifSetTrace(func(ev string, key []byte, n int) {
		tmu.Lock()
		trace = append(trace, traceEv{ev, string(key), n})
		tmu.Unlock()
	})
	closed := false
	defer func() {
		leveldb.VerifSetYield(nil)
		leveldb.VerifSetTrace(nil)
		if !closed {
			db.Close()
		}
	}()
	if c.Fault != nil {
		fs.SetFaults([]vfs.Fault{*c.Fault})
	}
	type result struct {
		key  string // first key of the call (identifies it in the trace)
		keys []string
		err  error
		done bool
	}
	var rmu sync.Mutex
	var batchTouched atomic.Value
	results := map[string]*result{}
	var wg sync.WaitGroup
	var issuedCount int64
	for wid, prog := range c.Writers {
		wg.Add(1)
		go func(wid int, prog []WOp) {
			defer wg.Done()
			for i, op := range prog {
				atomic.AddInt64(&issuedCount, 1)
				first := fmt.Sprintf("w%02d.%03d.0", wid, i)
				r := &result{key: first}
				val := bytes.Repeat([]byte{'v'}, op.Size)
				wo := &opt.WriteOptions{Sync: op.Sync, NoWriteMerge: op.NoMrg}
				var e error
				switch op.T {
				case "put":
					r.keys = []string{first}
					rmu.Lock()
					results[first] = r
					rmu.Unlock()
					e = db.Put([]byte(first), val, wo)
				case "del":
					r.keys = nil
					rmu.Lock()
					results[first] = r
					rmu.Unlock()
					e = db.Delete([]byte(first), wo)
				default:
					b := new(leveldb.Batch)
					for j := 0; j < op.N || j == 0; j++ {
						k := fmt.Sprintf("w%02d.%03d.%d", wid, i, j)
						b.Put([]byte(k), val)
						r.keys = append(r.keys, k)
					}
					rmu.Lock()
					results[first] = r
					rmu.Unlock()
					dump := append([]byte{}, b.Dump()...)
					e = db.Write(b, wo)
					if !bytes.Equal(dump, b.Dump()) || b.Len() != len(r.keys) {
						batchTouched.Store(fmt.Sprintf("Write of %s returned with the caller's batch changed: %d records before, %d after", first, len(r.keys), b.Len()))
					}
				}
				rmu.Lock()
				r.err, r.done = e, true
				rmu.Unlock()
				if e == leveldb.ErrClosed || e == leveldb.ErrReadOnly {
					return
				}
			}
		}(wid, prog)
	}
	// the racer competes for the write lock
	racerDone := make(chan struct{})
	writersDone := make(chan struct{})
	go func() { wg.Wait(); close(writersDone) }()
	// an observer takes snapshots all along and notes which calls' first keys each one shows: the
	// members of a write group must appear together
	var obs []map[string]bool
	obsDone := make(chan struct{})
	go func() {
		defer close(obsDone)
		defer func() { recover() }() // the racer may close the DB under the observer
		for len(obs) < 400 {
			select {
			case <-writersDone:
				return
			default:
			}
			snap, e := db.GetSnapshot()
			if e != nil {
				return
			}
			seen := map[string]bool{}
			it := snap.NewIterator(nil, nil)
			for it.Next() {
				if k := it.Key(); len(k) > 2 && k[len(k)-2] == '.' && k[len(k)-1] == '0' {
					seen[string(k)] = true
				}
			}
			ok := it.Error() == nil
			it.Release()
			snap.Release()
			if ok {
				obs = append(obs, seen)
			}
			time.Sleep(20 * time.Microsecond)
		}
	}()
	go func() {
		defer close(racerDone)
	wait:
		for atomic.LoadInt64(&issuedCount) < int64(c.RaceAt) {
			select {
			case <-writersDone:
				break wait
			case <-time.After(30 * time.Microsecond):
			}
		}
		switch c.Racer {
		case "close":
			db.Close()
			closed = true
		case "tr":
			if tr, e := db.OpenTransaction(); e == nil {
				tr.Put([]byte("racer.tr"), []byte("x"), nil)
				time.Sleep(100 * time.Microsecond)
				tr.Discard()
			}
		case "compact":
			db.CompactRange(util.Range{})
		case "setro":
			db.SetReadOnly()
		}
	}()
	done := make(chan struct{})
	go func() { <-writersDone; <-racerDone; close(done) }()
	select {
	case <-done:
	case <-time.After(40 * time.Second):
		return st, fmt.Errorf("writers (or the racing %s) did not all return within 40s: a writer was dropped or left waiting\n%s", c.Racer, goroutineDump())
	}
	st.racer = c.Racer != "" && c.Racer != "none"
	<-obsDone
	fs.Heal()
	if m := batchTouched.Load(); m != nil {
		return st, fmt.Errorf("%s (another writer's records were merged into it: writing it again would duplicate that writer)", m)
	}
	// ---- trace invariants
	tmu.Lock()
	tr := append([]traceEv(nil), trace...)
	tmu.Unlock()
	fail := func(i int, format string, a ...any) error {
		var lines []string
		lo := i - 12
		if lo < 0 {
			lo = 0
		}
		for j := lo; j < len(tr) && j < i+4; j++ {
			lines = append(lines, fmt.Sprintf("  %d %s %s %d", j, tr[j].ev, tr[j].key, tr[j].n))
		}
		c.Trace = lines
		return fmt.Errorf(format+"\ntrace around the event:\n%s", append(a, strings.Join(lines, "\n"))...)
	}
	type group struct {
		leader             string
		accepted           []string
		refused            string
		journal, published int
		pubRecords         int // number of records the group published (trace)
		failed             bool
		acks               int
		ended              string
	}
	var groups []*group
	var cur *group
	pendingHandoff := ""
	holder := false
	for i, e := range tr {
		switch e.ev {
		case "lock-acquired", "lock-handed":
			if holder {
				return st, fail(i, "event #%d: writer %s acquired the write lock while writer %s still held it", i, e.key, cur.leader)
			}
			if e.ev == "lock-handed" {
				if pendingHandoff == "" {
					return st, fail(i, "event #%d: writer %s was told the lock was handed to it, but no group ended with a hand-off", i, e.key)
				}
				if pendingHandoff != e.key {
					return st, fail(i, "event #%d: the lock was handed to writer %s but the refused writer was %s", i, e.key, pendingHandoff)
				}
				pendingHandoff = ""
			} else if pendingHandoff != "" {
				return st, fail(i, "event #%d: writer %s acquired the lock although it had been handed to %s", i, e.key, pendingHandoff)
			}
			holder = true
			cur = &group{leader: e.key}
			groups = append(groups, cur)
		case "leader":
			if !holder || cur == nil {
				return st, fail(i, "event #%d: a write group started without the write lock", i)
			}
		case "merge-accepted":
			if !holder {
				return st, fail(i, "event #%d: merge without the lock", i)
			}
			cur.accepted = append(cur.accepted, e.key)
		case "merge-refused":
			if !holder {
				return st, fail(i, "event #%d: merge refusal without the lock", i)
			}
			if cur.refused != "" {
				return st, fail(i, "event #%d: two writers refused in one group", i)
			}
			cur.refused = e.key
		case "journal":
			cur.journal++
		case "journal-failed":
			cur.failed = true
		case "published":
			cur.published++
			cur.pubRecords = e.n
		case "ack-sent":
			cur.acks++
		case "release", "handoff":
			if !holder {
				return st, fail(i, "event #%d: %s without holding the lock", i, e.ev)
			}
			if cur.ended != "" {
				return st, fail(i, "event #%d: the lock was released/handed off twice by one group", i)
			}
			cur.ended = e.ev
			if e.ev == "handoff" {
				if cur.refused == "" {
					return st, fail(i, "event #%d: lock handed off although no writer was refused", i)
				}
				pendingHandoff = cur.refused
			} else if cur.refused != "" {
				return st, fail(i, "event #%d: writer %s was refused (too large to merge) but the lock was released instead of handed to it", i, cur.refused)
			}
			if cur.acks != len(cur.accepted) {
				return st, fail(i, "event #%d: group of %s merged %d writers but sent %d acknowledgements", i, cur.leader, len(cur.accepted), cur.acks)
			}
			if cur.journal > 1 || cur.published > 1 {
				return st, fail(i, "event #%d: group of %s wrote %d journal records / published %d times", i, cur.leader, cur.journal, cur.published)
			}
			holder = false
		}
	}
	// ---- results: every writer returned exactly the result of its group
	rmu.Lock()
	defer rmu.Unlock()
	for _, g := range groups {
		st.groups++
		if len(g.accepted) > 0 {
			st.multi++
		}
		if g.ended == "handoff" {
			st.handoffs++
		}
		if g.failed {
			st.failedGroups++
		}
		lr := results[g.leader]
		if lr == nil || !lr.done {
			continue // e.g. the racer's own internal writes
		}
		nrec := func(r *result) int {
			if len(r.keys) == 0 {
				return 1 // a Delete
			}
			return len(r.keys)
		}
		want := nrec(lr)
		for _, k := range g.accepted {
			if r := results[k]; r != nil {
				want += nrec(r)
			}
		}
		// visible together: no snapshot shows some members of the group without the others
		// (members whose call wrote something under its first key: Put and batch Write)
		var putters []string
		for _, k := range append([]string{g.leader}, g.accepted...) {
			if r := results[k]; r != nil && len(r.keys) > 0 {
				putters = append(putters, k)
			}
		}
		if len(putters) > 1 {
			for _, seen := range obs {
				n := 0
				for _, k := range putters {
					if seen[k] {
						n++
					}
				}
				if n != 0 && n != len(putters) {
					return st, fmt.Errorf("a snapshot taken during the run shows %d of the %d writers of the group of %s (%v): the group did not become visible at once", n, len(putters), g.leader, putters)
				}
			}
			st.groupsObserved++
		}
		if g.published == 1 && g.pubRecords != want {
			return st, fmt.Errorf("the group of %s (merged: %v) published %d records, its members wrote %d: a writer's records were duplicated or dropped", g.leader, g.accepted, g.pubRecords, want)
		}
		for _, k := range g.accepted {
			r := results[k]
			if r == nil {
				return st, fmt.Errorf("merged writer %s is unknown to the harness", k)
			}
			if !r.done {
				return st, fmt.Errorf("merged writer %s never returned", k)
			}
			if (r.err == nil) != (lr.err == nil) {
				return st, fmt.Errorf("writer %s was merged into the group of %s but returned %v while the leader returned %v", k, g.leader, r.err, lr.err)
			}
		}
	}
	for k, r := range results {
		if !r.done {
			return st, fmt.Errorf("writer call %s never returned", k)
		}
	}
	// ---- effects: acknowledged writes visible, failed groups invisible as a whole (now or after reopen)
	if closed || c.Racer == "setro" {
		if !closed {
			db.Close()
			closed = true
		}
		ndb, oerr := leveldb.Open(fs, o)
		if oerr != nil {
			return st, fmt.Errorf("reopen: %v", oerr)
		}
		db = ndb
		closed = false
	}
	for k, r := range results {
		present := 0
		for _, kk := range r.keys {
			if _, e := db.Get([]byte(kk), nil); e == nil {
				present++
			} else if e != leveldb.ErrNotFound {
				return st, fmt.Errorf("Get(%s): %v", kk, e)
			}
		}
		if r.err == nil && present != len(r.keys) {
			return st, fmt.Errorf("writer call %s returned nil but only %d of its %d keys are readable afterwards", k, present, len(r.keys))
		}
		if r.err != nil && present != 0 && present != len(r.keys) {
			return st, fmt.Errorf("writer call %s failed (%v) and is partially visible: %d of %d keys", k, r.err, present, len(r.keys))
		}
	}
	return st, nil
}

func drawWCase(t *rapid.T) *WCase {
	c := &WCase{}
	c.Opts = gen.OptSpec{WriteBuffer: rapid.SampledFrom([]int{512, 2048, 16384, 1 << 20}).Draw(t, "wb"), TableSize: 2048, TotalSize: 8192, BlockSize: 256,
		L0Trigger: 2, L0Slowdown: 8, L0Pause: 12, DisableBackoff: true, DisableLargeBatch: rapid.IntRange(0, 2).Draw(t, "nolbt") != 0,
		NoWriteMerge: rapid.IntRange(0, 7).Draw(t, "nomerge") == 0}
	nw := rapid.IntRange(2, 12).Draw(t, "writers")
	og := rapid.Custom(func(t *rapid.T) WOp {
		op := WOp{T: rapid.SampledFrom([]string{"put", "put", "put", "del", "batch", "batch"}).Draw(t, "op")}
		op.Size = rapid.SampledFrom([]int{0, 10, 100, 400, 3000, 140000, 300000}).Draw(t, "size")
		if op.Size > 100000 && rapid.IntRange(0, 2).Draw(t, "bigrare") != 0 {
			op.Size = 50
		}
		if op.T == "batch" {
			op.N = rapid.IntRange(1, 5).Draw(t, "bn")
			if op.Size > 100000 {
				op.N = 1
			}
		}
		op.Sync = rapid.IntRange(0, 5).Draw(t, "sync") == 0
		op.NoMrg = rapid.IntRange(0, 9).Draw(t, "nm") == 0
		return op
	})
	total := 0
	for i := 0; i < nw; i++ {
		p := rapid.SliceOfN(og, 3, 25).Draw(t, "prog")
		total += len(p)
		c.Writers = append(c.Writers, p)
	}
	c.Racer = rapid.SampledFrom([]string{"none", "none", "close", "tr", "compact", "setro"}).Draw(t, "racer")
	c.RaceAt = rapid.IntRange(0, total).Draw(t, "raceat")
	if rapid.IntRange(0, 3).Draw(t, "fault") == 0 {
		c.Fault = &vfs.Fault{Kind: rapid.SampledFrom([]string{vfs.OpWrite, vfs.OpSync, vfs.OpCreate}).Draw(t, "fk"), FType: "journal",
			Nth: rapid.IntRange(1, 20).Draw(t, "nth"), Count: rapid.SampledFrom([]int{1, 1, 3}).Draw(t, "cnt")}
	}
	c.Yield = map[string]int{}
	for _, p := range []string{"write:merged", "write:ack", "write:handoff", "write:journal-mem", "write:mem-seq", "write:after-seq", "newmem:before-lock"} {
		c.Yield[p] = rapid.SampledFrom([]int{0, 0, 20, 100}).Draw(t, "y")
	}
	c.Sleep = rapid.SampledFrom([]int{0, 50, 300}).Draw(t, "sleep")
	c.Procs = rapid.SampledFrom([]int{0, 1, 2, 4}).Draw(t, "procs")
	c.Seed = rapid.Uint64().Draw(t, "seed")
	return c
}

// C10: writer serialisation and merge protocol loses or duplicates no writer.
func TestC10(t *testing.T) {
	if replayFile() != "" {
		c := &WCase{}
		if err := loadReplay(c); err != nil {
			t.Fatal(err)
		}
		for i := 0; i < envInt("VERIF_REPLAY_RUNS", 100); i++ {
			if _, err := runWriters(c); err != nil {
				t.Fatalf("replay failed (run %d): %v", i, err)
			}
		}
		return
	}
	rec := evid.New("C10")
	defer rec.Flush()
	rapid.Check(t, func(rt *rapid.T) {
		c := drawWCase(rt)
		saveJSON("VERIF_INFLIGHT", c)
		for rep := 0; rep < 2; rep++ {
			st, err := runWriters(c)
			if err != nil {
				reportFail("C10", c, err)
				rt.Fatalf("C10 violated: %v", err)
			}
			var cl []string
			add := func(ok bool, s string) {
				if ok {
					cl = append(cl, s)
				}
			}
			add(st.multi > 0, "group-with-merged-writers")
			add(st.handoffs > 0, "lock-hand-off")
			add(st.failedGroups > 0, "failed-group")
			add(st.racer, "racer-"+c.Racer)
			nt := st.multi > 0 && st.handoffs > 0
			cc := *c
			cc.Seed += uint64(rep)
			rec.Case(evid.FP(&cc), nt, cl...)
			rec.Add("groups", st.groups)
			if nt && rec.WantSample() {
				rec.Sample(map[string]any{"writers": len(c.Writers), "racer": c.Racer, "fault": c.Fault, "groups": st.groups, "groups_with_merges": st.multi, "handoffs": st.handoffs, "first_writer": c.Writers[0][:minInt(5, len(c.Writers[0]))]})
			}
		}
	})
}

var _ = dbm.FullScan
