package checks

import (
	"fmt"
	"testing"

	"github.com/syndtr/goleveldb/leveldb"
	"github.com/syndtr/goleveldb/leveldb/storage"
	"github.com/syndtr/goleveldb/leveldb/util"
	"pgregory.net/rapid"

	"verif/evid"
	"verif/gen"
	"verif/vfs"
)

// SCase is a space-reclamation case (C07, metamorphic): rewriting the same keys N times
// and compacting must not make the table files grow with N; deleting everything and
// compacting must give (nearly) all table space back.
type SCase struct {
	Opts   gen.OptSpec `json:"opts"`
	Cmp    string      `json:"cmp"`
	NKeys  int         `json:"nkeys"`
	VLen   int         `json:"vlen"`
	Rounds int         `json:"rounds"`
	Reopen bool        `json:"reopen"`
}

func runSpace(c *SCase) error {
	fs := vfs.New()
	o := c.Opts.Build(c.Cmp)
	db, err := leveldb.Open(fs, o)
	if err != nil {
		return fmt.Errorf("Open: %v", err)
	}
	defer func() { db.Close() }()
	var sizes []int
	for r := 0; r < c.Rounds; r++ {
		for k := 0; k < c.NKeys; k++ {
			v := gen.VSpec{Len: c.VLen, Fill: 1}.Bytes(fmt.Sprintf("%d.%d", r, k))
			if err := db.Put([]byte(fmt.Sprintf("key%05d", k)), v, nil); err != nil {
				return fmt.Errorf("Put: %v", err)
			}
		}
		if err := db.CompactRange(util.Range{}); err != nil {
			return fmt.Errorf("CompactRange: %v", err)
		}
		if err := db.VerifWaitIdle(); err != nil {
			return fmt.Errorf("VerifWaitIdle: %v", err)
		}
		if c.Reopen && r == c.Rounds/2 {
			if err := db.Close(); err != nil {
				return fmt.Errorf("Close: %v", err)
			}
			if db, err = leveldb.Open(fs, o); err != nil {
				return fmt.Errorf("reopen: %v", err)
			}
		}
		sizes = append(sizes, fs.TotalBytes(storage.TypeTable))
	}
	live := c.NKeys * (c.VLen + 20)
	for r, s := range sizes {
		// one round's live data is `live` bytes (incompressible values); allow generous overhead
		if s > 2*sizes[0]+4096 {
			return fmt.Errorf("table bytes grow with the number of rewrite+compact rounds: round 1: %d bytes, round %d: %d bytes (live data about %d bytes)", sizes[0], r+1, s, live)
		}
	}
	for k := 0; k < c.NKeys; k++ {
		if err := db.Delete([]byte(fmt.Sprintf("key%05d", k)), nil); err != nil {
			return fmt.Errorf("Delete: %v", err)
		}
	}
	if err := db.CompactRange(util.Range{}); err != nil {
		return fmt.Errorf("CompactRange: %v", err)
	}
	if err := db.VerifWaitIdle(); err != nil {
		return fmt.Errorf("VerifWaitIdle: %v", err)
	}
	after := fs.TotalBytes(storage.TypeTable)
	before := sizes[len(sizes)-1]
	if after > before/10+1024 {
		return fmt.Errorf("after deleting every key and a full compaction (no snapshot held) the tables still hold %d bytes (before: %d)", after, before)
	}
	it := db.NewIterator(nil, nil)
	n := 0
	for it.Next() {
		n++
	}
	it.Release()
	if n != 0 {
		return fmt.Errorf("%d keys left after deleting everything", n)
	}
	return nil
}

// TestC07S: space is given back by compaction (C07, metamorphic oracle).
func TestC07S(t *testing.T) {
	if replayFile() != "" {
		c := &SCase{}
		if err := loadReplay(c); err != nil {
			t.Fatal(err)
		}
		if err := runSpace(c); err != nil {
			t.Fatalf("replay failed: %v", err)
		}
		return
	}
	rec := evid.New("C07")
	defer rec.Flush()
	rapid.Check(t, func(rt *rapid.T) {
		c := &SCase{Opts: gen.DrawOpts(rt)}
		c.Cmp = rapid.SampledFrom([]string{"bytewise", "inv", "revstr"}).Draw(rt, "cmp")
		c.NKeys = rapid.SampledFrom([]int{30, 10, 100, 300}).Draw(rt, "nkeys")
		c.VLen = rapid.SampledFrom([]int{100, 20, 300}).Draw(rt, "vlen")
		c.Rounds = rapid.IntRange(3, 7).Draw(rt, "rounds")
		c.Reopen = rapid.Bool().Draw(rt, "reopen")
		if err := runSpace(c); err != nil {
			reportFail("C07", c, err)
			rt.Fatalf("C07 violated: %v", err)
		}
		rec.Case(evid.FP(c), c.Rounds >= 4, "space-reclamation")
	})
}
