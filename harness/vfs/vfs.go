// Package vfs is the checker-side storage.Storage: an in-memory storage with
// durability tracking (bytes up to the last Sync are durable, metadata
// operations are atomic and durable), crash images, fault plans, an operation
// log and byte damage.
package vfs

import (
	"errors"
	"fmt"
	"io"
	"os"
	"sort"
	"strings"
	"sync"

	"github.com/syndtr/goleveldb/leveldb/storage"
)

// Op kinds.
const (
	OpCreate = "create"
	OpOpen   = "open"
	OpRead   = "read"
	OpWrite  = "write"
	OpSync   = "sync"
	OpClose  = "close"
	OpRemove = "remove"
	OpRename = "rename"
	OpSetMet = "setmeta"
	OpList   = "list"
)

// ErrInjected is returned by operations failed by the fault plan.
var ErrInjected = errors.New("vfs: injected fault")

// TypeName returns a short name for a file type.
func TypeName(t storage.FileType) string {
	switch t {
	case storage.TypeManifest:
		return "manifest"
	case storage.TypeJournal:
		return "journal"
	case storage.TypeTable:
		return "table"
	case storage.TypeTemp:
		return "temp"
	}
	return "other"
}

// Fault describes one planned failure: the Nth..Nth+Count-1 occurrences
// (1-based, counted per (Kind,FType) pair from the moment the plan is armed)
// of operation Kind on files of type FType fail. Count<0 means forever.
type Fault struct {
	Kind  string `json:"kind"`
	FType string `json:"ftype"` // manifest|journal|table|temp|any
	Nth   int    `json:"nth"`
	Count int    `json:"count"`
	Short int    `json:"short,omitempty"` // for write: percentage of bytes written before failing
}

// LogEntry is one mutating (or, optionally, reading) operation.
type LogEntry struct {
	Kind  string
	FType string
	Num   int64
	N     int
	Op    int // value of the mutating-operation counter when the entry was made
}

type file struct {
	data   []byte
	synced int
	gen    int64
}

// TailMode decides, for a crash image, how much of a file's unsynced tail
// survives and what follows it. It returns the number of bytes of data to
// keep (synced <= keep <= n) and bytes to append after them.
type TailMode func(fd storage.FileDesc, synced, n int) (keep int, junk []byte)

// FS is the storage.
type FS struct {
	mu     sync.Mutex
	files  map[storage.FileDesc]*file
	meta   storage.FileDesc
	locked bool
	gen    int64

	ops    int // number of mutating operations so far
	reads  int // number of non-mutating operations so far
	log    []LogEntry
	logOn  bool
	logAll bool // also log open/read/list

	// crash
	crashAt int // 0 = never; image taken just before mutating op number crashAt (1-based)
	tail    TailMode
	image   *FS
	crashOp LogEntry

	// faults
	faults   []Fault
	fcount   map[string]int // kind/ftype -> occurrences since arming
	fired    []LogEntry
	armed    bool
	failAll  bool // every operation fails (used by some engines)
	missOpen int  // Open() of a table that does not exist
	torn     int  // (crash images) number of files whose contents differ from the live file

	text []string // DB log lines (TextLog)

	keptNotes int // number of "tables kept" lines the DB logged
	keptAt    int // operation counter at the last of them

	// optional hook invoked (without the lock) before every mutating op
	Hook func(kind string, fd storage.FileDesc)
}

// New returns an empty storage.
func New() *FS {
	return &FS{files: map[storage.FileDesc]*file{}, fcount: map[string]int{}, logOn: true}
}

// ---------------------------------------------------------------- control

// Ops returns the number of mutating operations performed so far.
func (v *FS) Ops() int { v.mu.Lock(); defer v.mu.Unlock(); return v.ops }

// KeptTables reports whether the DB logged that it keeps the tables of a discarded transaction
// (manifest not replaceable) and no manifest has been installed (SetMeta) since.
func (v *FS) KeptTables() bool {
	v.mu.Lock()
	defer v.mu.Unlock()
	if v.keptNotes == 0 {
		return false
	}
	for i := len(v.log) - 1; i >= 0; i-- {
		e := v.log[i]
		if e.Op != 0 && e.Op <= v.keptAt {
			break
		}
		if e.Kind == OpSetMet && e.Op > v.keptAt {
			return false
		}
	}
	return true
}

// Reads returns the number of non-mutating operations (open, read, list) so far.
func (v *FS) Reads() int { v.mu.Lock(); defer v.mu.Unlock(); return v.reads }

// SetLogAll makes the log include open/read/list operations.
func (v *FS) SetLogAll(on bool) { v.mu.Lock(); v.logAll = on; v.mu.Unlock() }

// Log returns a copy of the operation log from index from.
func (v *FS) LogFrom(from int) []LogEntry {
	v.mu.Lock()
	defer v.mu.Unlock()
	if from > len(v.log) {
		from = len(v.log)
	}
	return append([]LogEntry(nil), v.log[from:]...)
}

// LogLen returns the length of the log.
func (v *FS) LogLen() int { v.mu.Lock(); defer v.mu.Unlock(); return len(v.log) }

// SetCrash arranges for a crash image to be captured just before the at-th
// (relative to now, 1-based) mutating operation from now on.
func (v *FS) SetCrash(at int, tail TailMode) {
	v.mu.Lock()
	defer v.mu.Unlock()
	v.crashAt = v.ops + at
	v.tail = tail
	v.image = nil
}

// Crashed reports whether the crash instant has passed.
func (v *FS) Crashed() bool { v.mu.Lock(); defer v.mu.Unlock(); return v.image != nil }

// Image returns the captured crash image (nil if the crash instant was not
// reached) and the operation that was about to execute.
func (v *FS) Image() (*FS, LogEntry) {
	v.mu.Lock()
	defer v.mu.Unlock()
	return v.image, v.crashOp
}

// CrashNow captures an image right now (between two operations).
func (v *FS) CrashNow(tail TailMode) *FS {
	v.mu.Lock()
	defer v.mu.Unlock()
	return v.snapshotLocked(tail)
}

// Clone returns a copy in which everything is durable.
func (v *FS) Clone() *FS {
	v.mu.Lock()
	defer v.mu.Unlock()
	return v.snapshotLocked(nil)
}

func (v *FS) snapshotLocked(tail TailMode) *FS {
	img := New()
	img.meta = v.meta
	for fd, f := range v.files {
		keep, junk := len(f.data), []byte(nil)
		if tail != nil {
			keep, junk = tail(fd, f.synced, len(f.data))
			if keep < f.synced {
				keep = f.synced
			}
			if keep > len(f.data) {
				keep = len(f.data)
			}
		}
		d := make([]byte, 0, keep+len(junk))
		d = append(d, f.data[:keep]...)
		d = append(d, junk...)
		if keep != len(f.data) || len(junk) > 0 {
			img.torn++
		}
		img.gen++
		img.files[fd] = &file{data: d, synced: len(d), gen: img.gen}
	}
	return img
}

// SetFaults arms a fault plan (replacing any previous one) and resets the
// occurrence counters.
func (v *FS) SetFaults(fs []Fault) {
	v.mu.Lock()
	defer v.mu.Unlock()
	v.faults = append([]Fault(nil), fs...)
	v.fcount = map[string]int{}
	v.armed = len(fs) > 0
}

// Heal removes the fault plan.
func (v *FS) Heal() {
	v.mu.Lock()
	v.faults = nil
	v.armed = false
	v.failAll = false
	v.mu.Unlock()
}

// Fired returns the operations failed by the plan so far.
func (v *FS) Fired() []LogEntry {
	v.mu.Lock()
	defer v.mu.Unlock()
	return append([]LogEntry(nil), v.fired...)
}

// MissingOpens returns how often a table that does not exist was opened.
func (v *FS) MissingOpens() int { v.mu.Lock(); defer v.mu.Unlock(); return v.missOpen }

// ---------------------------------------------------------------- inspection

// Files lists all files, sorted.
func (v *FS) Files() []storage.FileDesc {
	v.mu.Lock()
	defer v.mu.Unlock()
	var r []storage.FileDesc
	for fd := range v.files {
		r = append(r, fd)
	}
	sort.Slice(r, func(i, j int) bool {
		if r[i].Type != r[j].Type {
			return r[i].Type < r[j].Type
		}
		return r[i].Num < r[j].Num
	})
	return r
}

// Meta returns the current meta (CURRENT) descriptor.
func (v *FS) Meta() storage.FileDesc { v.mu.Lock(); defer v.mu.Unlock(); return v.meta }

// ReadFile returns a copy of the file's bytes.
func (v *FS) ReadFile(fd storage.FileDesc) ([]byte, bool) {
	v.mu.Lock()
	defer v.mu.Unlock()
	f, ok := v.files[fd]
	if !ok {
		return nil, false
	}
	return append([]byte(nil), f.data...), true
}

// FileInfo returns length, synced length and generation of a file.
func (v *FS) FileInfo(fd storage.FileDesc) (n, synced int, gen int64, ok bool) {
	v.mu.Lock()
	defer v.mu.Unlock()
	f, ok := v.files[fd]
	if !ok {
		return 0, 0, 0, false
	}
	return len(f.data), f.synced, f.gen, true
}

// WriteFile replaces a file's bytes (durably), creating it if needed.
func (v *FS) WriteFile(fd storage.FileDesc, data []byte) {
	v.mu.Lock()
	defer v.mu.Unlock()
	v.gen++
	v.files[fd] = &file{data: append([]byte(nil), data...), synced: len(data), gen: v.gen}
}

// DeleteFile removes a file without logging.
func (v *FS) DeleteFile(fd storage.FileDesc) {
	v.mu.Lock()
	delete(v.files, fd)
	v.mu.Unlock()
}

// ClearMeta forgets the meta pointer.
func (v *FS) ClearMeta() { v.mu.Lock(); v.meta = storage.FileDesc{}; v.mu.Unlock() }

// TotalBytes returns the summed length of all files of the given type.
func (v *FS) TotalBytes(t storage.FileType) int {
	v.mu.Lock()
	defer v.mu.Unlock()
	n := 0
	for fd, f := range v.files {
		if fd.Type&t != 0 {
			n += len(f.data)
		}
	}
	return n
}

// ---------------------------------------------------------------- core

func (v *FS) matchFault(kind string, ft storage.FileType) (Fault, bool) {
	if v.failAll {
		return Fault{Kind: kind}, true
	}
	if !v.armed {
		return Fault{}, false
	}
	tn := TypeName(ft)
	var hit Fault
	found := false
	for _, key := range []string{kind + "/" + tn, kind + "/any"} {
		v.fcount[key]++
	}
	for _, f := range v.faults {
		if f.Kind != kind {
			continue
		}
		var c int
		if f.FType == "any" {
			c = v.fcount[kind+"/any"]
		} else if f.FType == tn {
			c = v.fcount[kind+"/"+tn]
		} else {
			continue
		}
		if c >= f.Nth && (f.Count < 0 || c < f.Nth+f.Count) {
			hit, found = f, true
			break
		}
	}
	return hit, found
}

// step is called with the lock held for every operation. mut tells whether
// the operation mutates the storage (those are crash points).
func (v *FS) step(kind string, fd storage.FileDesc, n int, mut bool) (Fault, error) {
	e := LogEntry{Kind: kind, FType: TypeName(fd.Type), Num: fd.Num, N: n}
	if !mut {
		v.reads++
	}
	if mut {
		v.ops++
		e.Op = v.ops
		if v.crashAt > 0 && v.ops == v.crashAt && v.image == nil {
			v.image = v.snapshotLocked(v.tail)
			v.crashOp = e
		}
	}
	if f, ok := v.matchFault(kind, fd.Type); ok {
		v.fired = append(v.fired, e)
		return f, fmt.Errorf("%w: %s %s", ErrInjected, kind, fd)
	}
	if v.logOn && (mut || v.logAll) {
		v.log = append(v.log, e)
	}
	if TextLog && mut && kind != OpWrite {
		v.text = append(v.text, fmt.Sprintf("[%d] -- %s %s-%d", v.ops, kind, e.FType, e.Num))
	}
	return Fault{}, nil
}

func (v *FS) hook(kind string, fd storage.FileDesc) {
	if h := v.Hook; h != nil {
		h(kind, fd)
	}
}

type locker struct{ v *FS }

func (l *locker) Unlock() {
	l.v.mu.Lock()
	l.v.locked = false
	l.v.mu.Unlock()
}

// Lock implements storage.Storage.
func (v *FS) Lock() (storage.Locker, error) {
	v.mu.Lock()
	defer v.mu.Unlock()
	if v.locked {
		return nil, storage.ErrLocked
	}
	v.locked = true
	return &locker{v}, nil
}

// IsLocked reports whether the storage lock is held.
func (v *FS) IsLocked() bool { v.mu.Lock(); defer v.mu.Unlock(); return v.locked }

// Log implements storage.Storage. The DB's own log lines are discarded unless
// TextLog is on (debugging aid: they are then kept, interleaved with the
// storage operations, and returned by Text).
func (v *FS) Log(s string) {
	if strings.Contains(s, "tables kept") {
		// the DB says it could not replace its manifest when discarding a transaction and keeps
		// the transaction's tables for now (see known finding F27)
		v.mu.Lock()
		v.keptNotes++
		v.keptAt = v.ops
		v.mu.Unlock()
	}
	if !TextLog {
		return
	}
	v.mu.Lock()
	v.text = append(v.text, fmt.Sprintf("[%d] %s", v.ops, s))
	v.mu.Unlock()
}

// TextLog switches the retention of the DB's log lines on (debugging only).
var TextLog bool

// Text returns the retained log lines.
func (v *FS) Text() []string {
	v.mu.Lock()
	defer v.mu.Unlock()
	return append([]string(nil), v.text...)
}

// SetMeta implements storage.Storage.
func (v *FS) SetMeta(fd storage.FileDesc) error {
	v.hook(OpSetMet, fd)
	v.mu.Lock()
	defer v.mu.Unlock()
	if _, err := v.step(OpSetMet, fd, 0, true); err != nil {
		return err
	}
	v.meta = fd
	return nil
}

// GetMeta implements storage.Storage.
func (v *FS) GetMeta() (storage.FileDesc, error) {
	v.mu.Lock()
	defer v.mu.Unlock()
	if v.meta.Zero() {
		return v.meta, os.ErrNotExist
	}
	if _, ok := v.files[v.meta]; !ok {
		return storage.FileDesc{}, os.ErrNotExist
	}
	return v.meta, nil
}

// List implements storage.Storage.
func (v *FS) List(ft storage.FileType) ([]storage.FileDesc, error) {
	v.mu.Lock()
	defer v.mu.Unlock()
	if _, err := v.step(OpList, storage.FileDesc{Type: ft}, 0, false); err != nil {
		return nil, err
	}
	var r []storage.FileDesc
	for fd := range v.files {
		if fd.Type&ft != 0 {
			r = append(r, fd)
		}
	}
	return r, nil
}

type reader struct {
	v      *FS
	fd     storage.FileDesc
	f      *file
	off    int64
	closed bool
}

func (r *reader) Read(p []byte) (int, error) {
	r.v.mu.Lock()
	defer r.v.mu.Unlock()
	if _, err := r.v.step(OpRead, r.fd, len(p), false); err != nil {
		return 0, err
	}
	if r.off >= int64(len(r.f.data)) {
		return 0, io.EOF
	}
	n := copy(p, r.f.data[r.off:])
	r.off += int64(n)
	return n, nil
}

func (r *reader) ReadAt(p []byte, off int64) (int, error) {
	r.v.mu.Lock()
	defer r.v.mu.Unlock()
	if _, err := r.v.step(OpRead, r.fd, len(p), false); err != nil {
		return 0, err
	}
	if off < 0 {
		return 0, errors.New("vfs: negative offset")
	}
	if off >= int64(len(r.f.data)) {
		return 0, io.EOF
	}
	n := copy(p, r.f.data[off:])
	if n < len(p) {
		return n, io.EOF
	}
	return n, nil
}

func (r *reader) Seek(offset int64, whence int) (int64, error) {
	r.v.mu.Lock()
	defer r.v.mu.Unlock()
	var abs int64
	switch whence {
	case io.SeekStart:
		abs = offset
	case io.SeekCurrent:
		abs = r.off + offset
	case io.SeekEnd:
		abs = int64(len(r.f.data)) + offset
	default:
		return 0, errors.New("vfs: invalid whence")
	}
	if abs < 0 {
		return 0, errors.New("vfs: negative position")
	}
	r.off = abs
	return abs, nil
}

func (r *reader) Close() error {
	r.v.mu.Lock()
	defer r.v.mu.Unlock()
	if r.closed {
		return storage.ErrClosed
	}
	r.closed = true
	return nil
}

// Open implements storage.Storage.
func (v *FS) Open(fd storage.FileDesc) (storage.Reader, error) {
	v.mu.Lock()
	defer v.mu.Unlock()
	if _, err := v.step(OpOpen, fd, 0, false); err != nil {
		return nil, err
	}
	f, ok := v.files[fd]
	if !ok {
		if fd.Type == storage.TypeTable {
			v.missOpen++
		}
		return nil, os.ErrNotExist
	}
	return &reader{v: v, fd: fd, f: f}, nil
}

type writer struct {
	v      *FS
	fd     storage.FileDesc
	f      *file
	closed bool
}

func (w *writer) Write(p []byte) (int, error) {
	w.v.hook(OpWrite, w.fd)
	w.v.mu.Lock()
	defer w.v.mu.Unlock()
	if w.closed {
		return 0, storage.ErrClosed
	}
	flt, err := w.v.step(OpWrite, w.fd, len(p), true)
	if err != nil {
		n := 0
		if flt.Short > 0 {
			n = len(p) * flt.Short / 100
			if n >= len(p) {
				n = len(p) - 1
			}
			if n < 0 {
				n = 0
			}
			w.f.data = append(w.f.data, p[:n]...)
		}
		return n, err
	}
	w.f.data = append(w.f.data, p...)
	return len(p), nil
}

func (w *writer) Sync() error {
	w.v.hook(OpSync, w.fd)
	w.v.mu.Lock()
	defer w.v.mu.Unlock()
	if w.closed {
		return storage.ErrClosed
	}
	if _, err := w.v.step(OpSync, w.fd, 0, true); err != nil {
		return err
	}
	w.f.synced = len(w.f.data)
	return nil
}

func (w *writer) Close() error {
	w.v.hook(OpClose, w.fd)
	w.v.mu.Lock()
	defer w.v.mu.Unlock()
	if w.closed {
		return storage.ErrClosed
	}
	if _, err := w.v.step(OpClose, w.fd, 0, false); err != nil {
		return err
	}
	w.closed = true
	return nil
}

// Create implements storage.Storage.
func (v *FS) Create(fd storage.FileDesc) (storage.Writer, error) {
	if !storage.FileDescOk(fd) {
		return nil, storage.ErrInvalidFile
	}
	v.hook(OpCreate, fd)
	v.mu.Lock()
	defer v.mu.Unlock()
	if _, err := v.step(OpCreate, fd, 0, true); err != nil {
		return nil, err
	}
	v.gen++
	f := &file{gen: v.gen}
	v.files[fd] = f
	return &writer{v: v, fd: fd, f: f}, nil
}

// Remove implements storage.Storage.
func (v *FS) Remove(fd storage.FileDesc) error {
	v.hook(OpRemove, fd)
	v.mu.Lock()
	defer v.mu.Unlock()
	if _, err := v.step(OpRemove, fd, 0, true); err != nil {
		return err
	}
	if _, ok := v.files[fd]; !ok {
		return os.ErrNotExist
	}
	delete(v.files, fd)
	return nil
}

// Rename implements storage.Storage.
func (v *FS) Rename(o, n storage.FileDesc) error {
	v.hook(OpRename, o)
	v.mu.Lock()
	defer v.mu.Unlock()
	if _, err := v.step(OpRename, o, 0, true); err != nil {
		return err
	}
	if o == n {
		return nil
	}
	f, ok := v.files[o]
	if !ok {
		return os.ErrNotExist
	}
	delete(v.files, o)
	v.gen++
	f.gen = v.gen
	v.files[n] = f
	return nil
}

// Close implements storage.Storage.
func (v *FS) Close() error { return nil }

var _ storage.Storage = (*FS)(nil)

// Torn reports how many files of the image lost or gained bytes relative to
// the live storage at the crash instant (set on images produced by a crash).
func (v *FS) Torn() int { v.mu.Lock(); defer v.mu.Unlock(); return v.torn }
