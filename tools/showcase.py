#!/usr/bin/env python3
"""Print a saved case readably: ./tools/showcase.py file..."""
import json, sys
def kstr(h):
    if h is None: return 'nil'
    b=bytes.fromhex(h)
    s=repr(b)[1:]
    return s if len(s)<40 else s[:20]+'..(%d)'%len(b)
for p in sys.argv[1:]:
    d=json.load(open(p))
    c=d.get('case',d)
    print('==',p); print('msg:',d.get('message','')[:300])
    print('opts:',c.get('opts'),'cmp:',c.get('cmp'),'det:',c.get('det'), {k:v for k,v in c.items() if k not in('opts','cmp','det','keys','ops','prop','note')})
    keys=c.get('keys') or []
    print('keys:',[kstr(k) for k in keys])
    for i,o in enumerate(c.get('ops') or []):
        o=dict(o)
        if o.get('v')=={'n':0}: o.pop('v')
        print(' ',i,json.dumps(o)[:220])
