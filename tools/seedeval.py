#!/usr/bin/env python3
"""Run the checks against the seeded changes under /verif/seeded.

  tools/seedeval.py [id ...] [--tier quick] [--also C01,C06] [--scratch]

--scratch: leave /repo alone; evaluate in a scratch git worktree of /repo (under
/var/tmp) with a scratch copy of /verif whose harness points at that worktree.
Used while /repo is busy (e.g. a thorough sweep is running against it).

For each seeded change: apply patch.diff to /repo's working tree, run the
quick check of the property it breaks (and of the checks named in --also or in
meta.json "also"), record whether a VIOLATION was reported, undo the change
(git checkout -- .). Results go to seeded/<id>/meta.json and seeded/RESULTS.md.
Never commits anything to /repo.
"""
import json
import os
import subprocess
import sys
import time

ROOT = os.path.dirname(os.path.dirname(os.path.abspath(__file__)))
SEEDED = os.path.join(ROOT, "seeded")


def sh(cmd, **kw):
    return subprocess.run(cmd, shell=True, stdout=subprocess.PIPE, stderr=subprocess.STDOUT, text=True, **kw)


def main():
    args = sys.argv[1:]
    tier = "quick"
    also = []
    ids = []
    scratch = False
    i = 0
    while i < len(args):
        if args[i] == "--tier":
            tier = args[i + 1]
            i += 2
        elif args[i] == "--scratch":
            scratch = True
            i += 1
        elif args[i] == "--also":
            also = args[i + 1].split(",")
            i += 2
        else:
            ids.append(args[i])
            i += 1
    if not ids:
        ids = sorted(d for d in os.listdir(SEEDED) if os.path.isdir(os.path.join(SEEDED, d)))
    repo, root = "/repo", ROOT
    if scratch:
        tag = "%d" % os.getpid()
        repo, root = "/var/tmp/ev-repo-" + tag, "/var/tmp/ev-verif-" + tag
        sh("git -C /repo worktree add --detach %s HEAD" % repo)
        sh("mkdir -p %s && rsync -a --exclude .cache --exclude evidence --exclude scratch --exclude seeded %s/ %s/ && mkdir -p %s/evidence" % (root, ROOT, root, root))
        sh("sed -i 's#=> /repo#=> %s#' %s/harness/go.mod" % (repo, root))
        # share the Go build cache (safe for concurrent use): the scratch copy then only rebuilds what the patch touches
        sh("mkdir -p %s/.cache && ln -s %s/.cache/gocache %s/.cache/gocache" % (root, ROOT, root))
    elif sh("git -C /repo status --porcelain").stdout.strip():
        print("refusing: /repo working tree is not clean")
        return 2
    for sid in ids:
        d = os.path.join(SEEDED, sid)
        try:
            conf = json.load(open(os.path.join(d, "confirm.json")))
        except Exception:
            conf = {}
        metap = os.path.join(d, "meta.json")
        try:
            meta = json.load(open(metap))
        except Exception:
            meta = {}
        prop = sid.split("-")[0]
        meta.setdefault("property", prop)
        meta["confirmed_on_repo_head"] = conf
        if conf.get("confirmed") != "yes":
            meta["status"] = "not kept as a confirmed seed: " + json.dumps({k: conf.get(k) for k in ("applies", "demo_with_patch", "demo_without_patch", "suite_with_patch")})
            json.dump(meta, open(metap, "w"), indent=1)
            print(sid, "skipped (not confirmed)")
            continue
        r = sh("git -C %s apply %s/patch.diff || git -C %s apply -3 %s/patch.diff" % (repo, d, repo, d))
        stt = sh("git -C %s status --porcelain" % repo).stdout
        if stt.strip() == "" or "UU " in stt or r.returncode != 0:
            sh("git -C %s reset -q --hard HEAD" % repo)
            print(sid, "patch did not apply cleanly to the current /repo HEAD:", r.stdout[-200:])
            continue
        checks = [prop] + [c for c in (meta.get("also") or []) + also if c != prop]
        runs = meta.get("runs", {})
        try:
            for c in checks:
                t0 = time.time()
                p = sh("cd %s && VERIF_SEED=%s ./check %s %s" % (root, os.environ.get("VERIF_SEED", "1"), c, tier))
                viol = [l for l in p.stdout.splitlines() if l.startswith("VIOLATION")]
                msg = [l for l in p.stdout.splitlines() if l.startswith("violation message")]
                runs["%s %s" % (c, tier)] = {
                    "exit": p.returncode, "violations": len(viol), "seconds": round(time.time() - t0, 1),
                    "first_message": (msg[0][:300] if msg else (p.stdout.strip().splitlines()[-1][:300] if p.stdout.strip() else "")),
                    "repo_head": sh("git -C /repo rev-parse --short HEAD").stdout.strip(),
                }
                print(sid, c, tier, "exit", p.returncode, "violations", len(viol), "%.0fs" % (time.time() - t0))
        finally:
            sh("git -C %s reset -q --hard HEAD && git -C %s clean -fdq" % (repo, repo))
        meta["runs"] = runs
        meta["detected_by"] = sorted({k for k, v in runs.items() if v["exit"] == 1 and v["violations"] > 0})
        meta["what_ran"] = "git -C /repo apply seeded/%s/patch.diff; ./check <Cxx> %s; git -C /repo checkout -- ." % (sid, tier)
        json.dump(meta, open(metap, "w"), indent=1)
    if scratch:
        sh("git -C /repo worktree remove --force %s; rm -rf %s" % (repo, root))
    # summary table
    rows = []
    for sid in sorted(os.listdir(SEEDED)):
        mp = os.path.join(SEEDED, sid, "meta.json")
        if not os.path.exists(mp):
            continue
        m = json.load(open(mp))
        rows.append("| %s | %s | %s | %s |" % (sid, m.get("property"), m.get("summary", "")[:110], ", ".join(m.get("detected_by", [])) or m.get("status", "not detected")[:60]))
    with open(os.path.join(SEEDED, "RESULTS.md"), "w") as f:
        f.write("# Seeded changes and which checks catch them\n\n| seed | property | what it changes | detected by |\n|---|---|---|---|\n" + "\n".join(rows) + "\n")
    return 0


if __name__ == "__main__":
    sys.exit(main())
