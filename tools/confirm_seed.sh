#!/bin/bash
# confirm_seed.sh <seed-id> <patch> <demo_test.go> <notes.md>
# Confirms a seeded change in a scratch worktree of /repo HEAD: applies, builds (both tags), demo fails with it and
# passes without it, existing suite stays green with it. Writes /verif/seeded/<id>/{patch.diff,demo_test.go,notes.md,confirm.json}.
set -u
export GOFLAGS=-mod=mod GOPROXY=off GOSUMDB=off GOTOOLCHAIN=local
ID=$1; PATCH=$2; DEMO=$3; NOTES=$4
WT=/tmp/cs-$ID
OUT=/verif/seeded/$ID
# private temp dir: one test of the repository uses a fixed path under $TMPDIR, concurrent suite runs would collide
export TMPDIR=/tmp/cs-$ID.tmpdir
mkdir -p $TMPDIR
mkdir -p $OUT
cp "$PATCH" $OUT/patch.diff; cp "$DEMO" $OUT/demo_test.go; cp "$NOTES" $OUT/notes.md 2>/dev/null
git -C /repo worktree remove --force $WT 2>/dev/null
git -C /repo worktree add -q --detach $WT HEAD || exit 2
cd $WT
res() { python3 - "$@" <<'PY'
import json,sys
p=sys.argv[1]; k=sys.argv[2]; v=sys.argv[3]
try: d=json.load(open(p))
except Exception: d={}
d[k]=v
json.dump(d,open(p,'w'),indent=1)
PY
}
C=$OUT/confirm.json; rm -f $C
res $C head "$(git -C /repo rev-parse --short HEAD)"
if git apply $OUT/patch.diff 2>/tmp/cs-$ID.err; then res $C applies yes; elif git apply -3 $OUT/patch.diff 2>>/tmp/cs-$ID.err; then res $C applies "yes (3-way)"; git diff > $OUT/patch.diff; else res $C applies "no: $(head -3 /tmp/cs-$ID.err | tr '\n' ' ')"; cd /; git -C /repo worktree remove --force $WT; exit 1; fi
git diff > /tmp/cs-$ID.applied.diff
if go build ./... 2>/tmp/cs-$ID.err && go build -tags verif ./... 2>>/tmp/cs-$ID.err; then res $C builds yes; else res $C builds "no: $(head -5 /tmp/cs-$ID.err | tr '\n' ' ')"; cd /; git -C /repo worktree remove --force $WT; exit 1; fi
# demo placement
DIR=$(head -3 $OUT/demo_test.go | grep -o 'leveldb[a-z/]*' | head -1); [ -z "$DIR" ] && DIR=leveldb
[ -d "$DIR" ] || DIR=leveldb
TAGS=""; grep -q 'go:build verif' $OUT/demo_test.go && TAGS="-tags verif"
cp $OUT/demo_test.go $DIR/zz_seed_demo_test.go
TESTNAME=$(grep -o 'func TestSeed[0-9A-Za-z_]*' $OUT/demo_test.go | head -1 | sed 's/func //')
res $C demo_dir "$DIR"; res $C demo_test "$TESTNAME"
go test $TAGS -vet=off -count=1 -timeout 10m -run "^${TESTNAME}\$" ./$DIR/ > /tmp/cs-$ID.with.log 2>&1; RW=$?
res $C demo_with_patch "exit $RW"
git apply -R /tmp/cs-$ID.applied.diff
go test $TAGS -vet=off -count=3 -timeout 10m -run "^${TESTNAME}\$" ./$DIR/ > /tmp/cs-$ID.without.log 2>&1; RO=$?
res $C demo_without_patch "exit $RO"
rm -f $DIR/zz_seed_demo_test.go
git apply /tmp/cs-$ID.applied.diff
go test -vet=off -count=1 -timeout 25m ./... > /tmp/cs-$ID.suite.log 2>&1; RS=$?
res $C suite_with_patch "exit $RS"
[ $RS -ne 0 ] && res $C suite_failures "$(grep -E '^(--- FAIL|FAIL)' /tmp/cs-$ID.suite.log | head -5 | tr '\n' ' ')"
if [ $RW -ne 0 ] && [ $RO -eq 0 ] && [ $RS -eq 0 ]; then res $C confirmed yes; else res $C confirmed no; fi
cd /; git -C /repo worktree remove --force $WT
rm -rf /tmp/cs-$ID.*
