"""Definitions of the checks: which harness test decides which property, with
what case counts per tier, and the texts that go into MANIFEST.json and the
evidence files. MANIFEST.json is generated from this table by
tools/mkmanifest.py."""

DBM_ASSUME = [
    "the checker's in-memory storage (harness/vfs) behaves like a correct file system",
    "the reference model (a Go map ordered by the case's comparer) is correct",
    "single client; background compaction timing is either forced to quiescence after every write (deterministic-layout cases) or left free",
]

CHECKS = {
    "C01": {
        "test": "TestC01",
        "level": "exploration",
        "technique": "model-based stateful property testing (rapid): generated op sequences vs. an ordered-map model",
        "design_ref": "DESIGN.md §5 C01",
        "quick": {"shards": 16, "n": 1200, "timeout": 600},
        "thorough": {"shards": 16, "n": 45000, "timeout": 3400},
        "floor": {"quick": 1500, "thorough": 50000},
        "rule": "rapid draws (options, comparer, key pool, 10-250 ops: put/del/batch/large batch/get/compact/reopen/idle/snapshot/scan); "
                "every write is followed by Get+Has of the touched keys, every CompactRange/reopen and the end of the case by Get+Has of all pool keys and a full scan, all compared with a map model. "
                "A case is non-trivial if >=1 buffer flush and >=1 table compaction ran (DB.Stats) and reads were checked after them; "
                "distinct = distinct FNV-1a fingerprints of the case JSON among non-trivial cases (set union over shards).",
        "level_text": "Exploration: tens of thousands (quick) to a million (thorough) generated single-client histories over tiny-sized layouts, all comparers of the contract and all layout options, each compared read-by-read with an ordered-map model; shrunk replay files. No exhaustiveness claim.",
        "level_note": "Trusted: harness/vfs storage, the map model, DB.Stats counters for classification. Schedules of background compaction are not controlled beyond forcing quiescence in half of the cases.",
        "assumptions": DBM_ASSUME,
    },
    "C02": {
        "test": "TestC02", "level": "exploration",
        "technique": "model-based stateful property testing (rapid): generated iterator walks vs. a cursor over the model's sorted list",
        "quick": {"shards": 13, "n": 900, "timeout": 600, "extra": [{"test": "TestC02M", "n": 6000, "shards": 3}]},
        "thorough": {"shards": 13, "n": 70000, "timeout": 3400, "extra": [{"test": "TestC02M", "n": 1000000, "shards": 3}]},
        "floor": {"quick": 500, "thorough": 20000},
        "rule": "rapid draws a DB history (writes, deletes, batches, compactions, snapshots held so that hidden versions stay in the tables, transactions) interleaved with iterators on DB / snapshot / transaction with drawn ranges and drawn walks (First/Last/Seek/Next/Prev, up to 30 moves, long-lived iterators resumed later). "
                "Every move's result, Valid(), Key and Value are compared with a cursor over the model's sorted restricted list; each iterator ends with a full forward and a full backward pass. A second search (TestC02M) drives the component iterators directly with the same walk generator and oracle: iterator.NewMergedIterator over 1-6 array iterators (some empty) and iterator.NewIndexedIterator over chunked arrays, under four comparers. "
                "Non-trivial: the case has a walk with a direction reversal and a Seek, tables next to the write buffer (>=2 physical sources) and hidden entries (snapshot held or delete before compaction). distinct = distinct case fingerprints.",
        "level_text": "Exploration: generated walks over generated layouts, compared move by move with the documented cursor semantics; component iterators are covered additionally by C13/C14 checks. No exhaustiveness claim.",
        "level_note": "Trusted: cursor model (position -1..n), vfs storage. Ranges are always valid intervals (Start<=Limit).",
        "assumptions": DBM_ASSUME,
    },
    "C03": {
        "test": "TestC03", "level": "exploration",
        "technique": "model-based stateful property testing (rapid): persistent model copies per snapshot/iterator",
        "quick": {"shards": 16, "n": 400, "timeout": 600},
        "thorough": {"shards": 16, "n": 10000, "timeout": 3400},
        "floor": {"quick": 1000, "thorough": 30000},
        "rule": "rapid draws histories with up to 6 simultaneously live snapshots and 4 live iterators, point reads / scans / resumed walks through them, interleaved with writes, deletes, flushes, automatic and manual compactions; each handle is compared with the model copy taken at its creation, and after releasing one handle all others and the live DB are re-checked. "
                "Non-trivial: a handle was read after a table compaction that ran after a key visible through it had been overwritten or deleted.",
        "level_text": "Exploration over generated single-client histories; every read through a handle is compared with the frozen model copy.",
        "level_note": "Trusted: model copies, vfs. Iterators are released before Close (documented requirement).",
        "assumptions": DBM_ASSUME,
    },
    "C06": {
        "test": "TestC06", "level": "exploration",
        "technique": "stateful property testing with a validity predicate evaluated on every installed version (pinned through the verif version-observer hook)",
        "quick": {"shards": 16, "n": 500, "timeout": 600},
        "thorough": {"shards": 16, "n": 12000, "timeout": 3400},
        "floor": {"quick": 1000, "thorough": 20000},
        "rule": "rapid draws histories (flushes, automatic/seek/manual compactions, trivial moves, transactions, large batches, reopen) under all comparers and size options; EVERY version installed by the session is handed to the checker pinned, all its tables are read back from storage with table.NewReader under the real internal comparer and checked: file exists with recorded size, entries strictly increasing and parsable, recorded smallest/largest = first/last entry, levels>=1 sorted with strictly disjoint user-key ranges, and for every user key every entry in a shallower level is newer than every entry in a deeper level. "
                "Non-trivial: the case installed a version with >=2 non-empty levels and >=2 files in some level >=1.",
        "level_text": "Exploration: the well-formedness predicate is evaluated on every version installation of every generated history (about 10^5 versions per quick run).",
        "level_note": "Trusted: the table reader used to read tables back, the version-observer hook (pins the version under the session mutex), vfs. States between two storage operations inside one installation are covered by C04.",
        "assumptions": DBM_ASSUME,
    },
    "C07": {
        "test": "TestC07", "level": "exploration",
        "technique": "stateful property testing: long-lived iterators vs. model copies plus storage-listing invariants at quiescence",
        "quick": {"shards": 12, "n": 300, "timeout": 600, "extra": [{"test": "TestC07F", "n": 120, "shards": 5}, {"test": "TestC07S", "n": 40, "shards": 3}]},
        "thorough": {"shards": 12, "n": 8000, "timeout": 3400, "extra": [{"test": "TestC07F", "n": 3000, "shards": 5}, {"test": "TestC07S", "n": 1000, "shards": 3}]},
        "floor": {"quick": 300, "thorough": 10000},
        "rule": "rapid draws histories with long-lived iterators (OpenFilesCacheCapacity 1-2 so tables are reopened from storage), compactions, discarded transactions and reopen. Oracle A: every iterator is walked and fully scanned at the end and must equal its model copy; the storage flags any Open of a removed table. "
                "Oracle B: at idle points (VerifWaitIdle) with no iterator or transaction alive, and after reopen, storage must hold exactly the live tables, one journal, the current manifest. TestC07F: the fault workloads of C08 (no Remove faults) judged on the same 'no residue' rule once the injected failures have stopped and work has settled, and again after reopen. TestC07S (metamorphic): N rounds of rewriting the same K keys + full CompactRange must not make the table bytes grow with N (<= 2x round 1 + 4 KiB); deleting every key + full CompactRange with no snapshot held must leave <= 10% + 1 KiB of the previous table bytes. Non-trivial: an iterator stayed alive across >=1 table removal and >=1 file-set check ran.",
        "level_text": "Exploration over generated histories; both directions of the property (nothing needed deleted / nothing unneeded kept) are checked.",
        "level_note": "Trusted: VerifWaitIdle establishes quiescence (synchronises with the compaction goroutines and the reference loop); vfs listing.",
        "assumptions": DBM_ASSUME,
    },
    "C11": {
        "test": "TestC11", "level": "exploration",
        "technique": "model-based stateful property testing (rapid): transaction overlay model",
        "quick": {"shards": 12, "n": 700, "timeout": 600, "extra": [{"test": "TestC11F", "n": 120, "shards": 6}]},
        "thorough": {"shards": 12, "n": 40000, "timeout": 3400, "extra": [{"test": "TestC11F", "n": 3000, "shards": 6}]},
        "floor": {"quick": 1000, "thorough": 20000},
        "rule": "rapid draws histories with OpenTransaction, transaction writes spanning several internal flushes, reads inside (overlay model) and outside (model at open) the transaction, Commit, Discard, Close with an open transaction, oversized DB.Write batches; after Discard/Commit/reopen a full sweep is compared with the model and, at idle, storage must contain no table outside the live set. "
                "Non-trivial: a transaction was committed or discarded in a case that also flushed buffers.",
        "level_text": "Exploration of the sequential transaction semantics (isolation, atomic visibility, no residue); crash atomicity of Commit is covered by the C04 engine, blocking behaviour by C09.",
        "level_note": "Trusted: overlay model, vfs listing, VerifWaitIdle.",
        "assumptions": DBM_ASSUME,
    },
    "C20": {
        "test": "TestC20", "level": "exploration",
        "technique": "stateful property testing in poison mode: argument and result buffers are overwritten after every call",
        "quick": {"shards": 16, "n": 900, "timeout": 600},
        "thorough": {"shards": 16, "n": 45000, "timeout": 3400},
        "floor": {"quick": 1000, "thorough": 20000},
        "rule": "the C01 machine in poison mode: every key/value/batch buffer passed to Put/Delete/Write/Batch.Put/Batch.Delete/Seek is compared with a pre-call copy and then overwritten with 0xAA; every value returned by DB.Get / Transaction.Get is overwritten; iterator Key/Value are copied and compared again after further DB activity before the iterator moves; buffer pool, block cache and compression are drawn. All later reads are compared with a model built from private copies. "
                "Non-trivial: >=2 Get results that came after flush+compaction (i.e. from table blocks) were scribbled and keys re-read.",
        "level_text": "Exploration: aliasing in either direction shows up as a later read disagreeing with the model.",
        "level_note": "Trusted: model built from copies. Snapshot.Get results are not overwritten (its documentation forbids it).",
        "assumptions": DBM_ASSUME,
    },
    "C12": {
        "test": "TestC12", "level": "exploration", "engine": "component",
        "technique": "property-based round-trip and damage-containment testing of journal.Writer/Reader (rapid) plus a native Go fuzz target",
        "quick": {"shards": 16, "n": 2500, "timeout": 600},
        "thorough": {"shards": 16, "n": 150000, "timeout": 3000},
        "fuzz": [{"pkg": "./checks", "name": "FuzzC12", "seconds": 240}],
        "floor": {"quick": 3000, "thorough": 100000},
        "shrink": False,
        "rule": "rapid draws record-length lists built to hit block-boundary residues (lengths chosen to leave 0-8 / 9-40 bytes in the 32 KiB block, 0, 1, one block +-20, 2-3 blocks), write split sizes and Flush patterns, then a damage spec: truncation at a drawn offset (biased to block boundaries +-12), 1-3 bit/byte flips, or a zeroed range. "
                "Oracle: undamaged streams round-trip exactly in strict and tolerant mode; the written stream must parse under the checker's own chunk parser. With damage: never panics; the yielded list is a subsequence of the originals (each byte-equal); tolerant mode must yield every record none of whose 32 KiB blocks contains a damaged byte; strict mode yields exactly a prefix and must report corruption when it fails to deliver a record whose first chunk header is completely present. "
                "Non-trivial: a record spans blocks and a record ends within 7 bytes of a block end, or damage lands in a chunk header.",
        "level_text": "Exploration with a complete oracle for the stated framing rules; tens of thousands of generated streams per quick run, millions plus coverage-guided fuzzing in thorough.",
        "level_note": "Trusted: the checker's own 60-line chunk parser (used to map records to byte extents). CRC forgery by random damage has probability 2^-32 per case.",
        "assumptions": ["checksums on (the property's setting)", "the checker's own chunk parser is correct"],
    },
    "C13": {
        "test": "TestC13", "level": "exploration", "engine": "component",
        "technique": "property-based round-trip testing of table.Writer/Reader with cursor-model walks and single-byte alteration (rapid)",
        "quick": {"shards": 16, "n": 500, "timeout": 600},
        "thorough": {"shards": 16, "n": 22000, "timeout": 3400},
        "floor": {"quick": 200, "thorough": 10000},
        "shrink": False,
        "rule": "rapid draws sorted key/value sets (0..2000 entries; hostile keys, long shared prefixes, 0xff runs, empty values, values larger than a block), block size 1..4096, restart interval 1..64, compression, bloom bits and filter base, block cache and buffer pool on/off, the comparer (bytewise and contract-conforming custom ones, raw and through the real internal comparer with several versions per user key); then Get/Find/FindKey (filtered and not) of stored keys and of probes between/outside them, OffsetOf monotonicity, range-restricted iterators with drawn walks compared move by move with a cursor model plus full forward/backward passes; then one altered byte at a drawn offset before the footer: every stored key is returned with its own value or a non-not-found error, a scan yields original pairs in order and reports an error if any pair is missing. "
                "A third of the cases open the table with reader options that differ from the writer's in block size, restart interval, compression, bloom bits per key and filter base (a table describes itself: the answers must not change). "
                "Non-trivial: >=2 data blocks, a range with both bounds strictly inside, and a walk with a direction reversal.",
        "level_text": "Exploration of the table format's observable contract over generated layouts; damage oracle in its strict form (never not-found for a stored key).",
        "level_note": "Trusted: cursor model. The footer is not checksummed and is not altered. The empty table is generated for user comparers only (the internal comparer cannot produce one in the DB).",
        "assumptions": ["alteration is applied before the reader is created"],
    },
    "C14": {
        "test": "TestC14", "level": "exploration", "engine": "component",
        "technique": "model-based property testing of memdb (rapid) with a sampled concurrent one-writer/many-readers phase",
        "quick": {"shards": 16, "n": 1500, "timeout": 600},
        "thorough": {"shards": 16, "n": 30000, "timeout": 3400, "race": True},
        "floor": {"quick": 2000, "thorough": 50000},
        "shrink": False,
        "rule": "rapid draws op lists over hostile keys and all comparers: Put (overwrites changing the value length), Delete (incl. absent keys), Get/Contains, Find, ranged iterator walks against the cursor model, Reset and reuse; Len and Size are compared with the model after every op and slices handed out earlier must keep their contents. About every 8th case adds a concurrent phase: one writer putting 200-3000 keys (with overwrites of varying length) while 2-8 readers walk forwards/backwards and look up: keys strictly ordered, every pair was stored, keys present before the walk are not skipped, a finished Put is visible. "
                "Non-trivial: overwrite with a different length + delete of an absent key + ranged walk in one case, or a concurrent phase of >=100 puts.",
        "level_text": "Exploration; the concurrent half samples schedules (thorough runs it under the race detector).",
        "level_note": "Interleavings are sampled, not enumerated.",
        "assumptions": ["one writer at a time (the DB's usage)"],
    },
    "C15": {
        "test": "TestC15", "level": "exploration", "engine": "component",
        "technique": "algebraic-law property testing on the real internal comparer and key codec (rapid + native fuzz target)",
        "quick": {"shards": 16, "n": 15000, "timeout": 600},
        "thorough": {"shards": 16, "n": 1500000, "timeout": 3000},
        "fuzz": [{"pkg": "./checks", "name": "FuzzC15", "seconds": 180}],
        "floor": {"quick": 50000, "thorough": 300000},
        "shrink": False,
        "rule": "rapid draws triples of internal keys built with the real codec (hook): user keys related to a common base (identical, base as prefix, prefix of base, one byte changed to 0x00/0x01/0x7f/0x80/0xfe/0xff) or independent hostile keys, sequence numbers over all 56 bits with boundary bias, both kinds, all seven comparer variants. Laws: decode(encode)=identity and the encoding layout; Compare sign = (user order, seq descending, kind descending); antisymmetry, equality only for identical keys, transitivity; the lookup probe (k,s) sorts before every entry of k not newer than s and after every newer one; for a<b: a <= Separator(a,b) < b and Successor(x) >= x (nil = unchanged), arguments unmodified - on the internal comparer, on each user comparer and on DefaultComparer. "
                "Non-trivial: equal user keys, prefix-related keys or 0xff runs among the three.",
        "level_text": "Exploration of the algebraic laws; index routing through shortened keys is exercised end-to-end by C13 in internal-comparer mode.",
        "level_note": "Separator/Successor are called with an empty dst (the only way the table writer calls them).",
        "assumptions": [],
    },
    "C16": {
        "test": "TestC16", "level": "exploration", "engine": "component",
        "technique": "property-based testing: filter no-false-negative law, table-level filtered lookups, and differential replay of DB programs under different filter policies",
        "quick": {"shards": 16, "n": 250, "timeout": 600},
        "thorough": {"shards": 16, "n": 30000, "timeout": 3400},
        "fuzz": [{"pkg": "./checks", "name": "FuzzC16", "seconds": 120}],
        "floor": {"quick": 1000, "thorough": 30000},
        "shrink": False,
        "rule": "three generated case kinds: (set) key sets of 0-10^4 keys x bits-per-key 1-64, one generator reused for several consecutive filters: every added key must be contained; (table) C13 table cases with bloom bits 1/10/64 and filter base 5-14: Find/FindKey(filtered=true) of every stored key; (db) a generated DB program (writes, deletes, batches, compactions, reopen, snapshots and snapshot reads) replayed under seven filter configurations - none, bloom(1/10/64), a custom exact hash-set policy, and two cycles that switch the policy at every reopen with the others as AltFilters - each run compared read-by-read with the model. "
                "Non-trivial: table with >=3 filter partitions, DB program whose reads reached tables, key set >=1000 or a reused generator.",
        "level_text": "Exploration; the differential DB part makes every configuration agree with the model, hence with each other.",
        "level_note": "Trusted: model; the custom hash-set policy in harness/gen is itself free of false negatives.",
        "assumptions": [],
    },
    "C17": {
        "test": "TestC17", "level": "exploration", "engine": "component",
        "technique": "property-based testing of generated concurrent cache programs with instrumented values (sampled schedules)",
        "quick": {"shards": 16, "n": 150, "timeout": 600},
        "thorough": {"shards": 16, "n": 3000, "timeout": 3400, "race": True},
        "floor": {"quick": 1000, "thorough": 30000},
        "shrink": False,
        "replay_runs": 50,
        "rule": "rapid draws programs of 1-3 phases x 2-12 goroutines x 20-1500 ops over cache.NewCache(cache.NewLRU(cap)) and NewCache(nil): Get (handle held for a drawn number of later ops), bulk fills that push the hash map through growth and shrinkage, Delete with callback, Evict, EvictNS, EvictAll, SetCapacity, repeated Release of stale handles, final Close(force or not), GOMAXPROCS drawn. Instrumented values check: a handle never carries a finalised value; a value is never finalised while a handle the harness holds is outstanding (except after Close(force)); a constructor never runs while another value of the same key has outstanding handles; every value is finalised exactly once by the end; every deletion callback runs exactly once and not while handles of the value it was aimed at are outstanding; at barriers with all handles released the retained charge is <= capacity, Size()/Nodes() match the instrumentation and every deletion callback registered so far has run (a deleted entry is not kept by the replacement policy). "
                "Non-trivial: overlapping handles on the same key and a Delete issued while a handle was outstanding.",
        "level_text": "Exploration with sampled interleavings; the oracle is complete for the stated rules on each observed execution.",
        "level_note": "Interleavings are sampled, not enumerated (race detector in thorough).",
        "assumptions": [],
    },
    "C18": {
        "test": "TestC18", "level": "exploration", "engine": "dbm",
        "technique": "property-based lifecycle scripts over generated histories, with the checker's storage as mutation log",
        "quick": {"shards": 13, "n": 300, "timeout": 600, "extra": [{"test": "TestC18S", "n": 150, "shards": 3}]},
        "thorough": {"shards": 13, "n": 18000, "timeout": 3400, "extra": [{"test": "TestC18S", "n": 20000, "shards": 3}]},
        "floor": {"quick": 1000, "thorough": 20000},
        "shrink": False,
        "replay_runs": 10,
        "rule": "rapid draws a prior history (data only in the journal / in tables / compaction pending / open transaction / live snapshots) and 1-5 lifecycle scenes: a second Open while open (must fail with the storage's lock error); Close then Open(ReadOnly) - also with a buffer flush forced to be pending at Close - all model data must be served, Put/Delete/Write/CompactRange/OpenTransaction must return ErrReadOnly and the storage log must show no create/write/sync/remove/rename/setmeta; SetReadOnly on the live DB, drain background work (VerifWaitIdleRO), up to 3000 further reads, drain again: no further mutation, reads match the model; every public method after Close returns ErrClosed (iterators/snapshots/transactions their own errors), nothing touches storage, second Close is ErrClosed, the lock is free; released snapshots/iterators report their 'released' errors; Get/Has/GetSnapshot/GetProperty racing with Close return the normal result or ErrClosed and Close returns. A second search (TestC18S) runs generated put/delete/second-open/close-reopen/read-only-session programs on the repository's own storages (storage.OpenFile in a fresh temporary directory, storage.NewMemStorage): a second leveldb.Open and a second OpenFile (either mode) on an owned storage must fail, the storage must be available again after Close with all data, a read-only OpenFile + Open(ReadOnly) session must serve all data, reject Put/CompactRange with ErrReadOnly, exclude a read-write OpenFile, and leave the directory byte-for-byte unchanged (names, sizes, SHA-1) - also when a pending CURRENT.<n> from an interrupted manifest switch lies next to CURRENT. A third of the directory cases open the DB with leveldb.OpenFile (the DB owns the storage); a faultclose step hides the table files, lets a compaction fail, calls Close while it is retried and puts the files back: Close may report the error but the directory must be available again with all data. "
                "Non-trivial: read-only open with data in the journal, >=8 methods exercised after Close, or a SetReadOnly scene.",
        "level_text": "Exploration over generated histories x scene scripts; the mutation oracle is exact (every storage call is logged).",
        "level_note": "Trusted: vfs log; VerifWaitIdleRO hook to define 'background work has drained'. Iterators are released before Close (documented requirement), so NewIterator is not part of the racing set.",
        "assumptions": DBM_ASSUME,
    },
    "C19": {
        "test": "TestC19", "level": "exploration", "engine": "dbm",
        "technique": "property-based testing of leveldb.Recover over generated settled layouts with manifest loss and table-block damage; physical-entry oracle from the checker's own table/journal parsers",
        "quick": {"shards": 16, "n": 700, "timeout": 600},
        "thorough": {"shards": 16, "n": 5000, "timeout": 3400},
        "floor": {"quick": 500, "thorough": 10000},
        "replay_runs": 5,
        "rule": "rapid draws a history (all layouts, overwritten and deleted keys, data left in the journal), settles and closes it, then removes / truncates / garbles the manifest or drops CURRENT, optionally alters one byte in 1-4 drawn table data blocks (block map from the checker's own table parser, taken before the damage), calls leveldb.Recover and continues with further generated steps; the C06 well-formedness predicate runs on every version installed by and after Recover. "
                "Oracle: without block damage the full contents (Get/Has of every key + full scan) equal the model exactly; with damage Recover must succeed, every key whose globally newest entry (highest sequence over tables and journals) sits in an undamaged block returns exactly that entry's effect, any other key returns not-found or a value physically stored for it, and the recovered DB is self-consistent (point reads vs. scan) and usable. "
                "Non-trivial: >=2 levels before shutdown with an overwritten version and a tombstone physically present.",
        "level_text": "Exploration over generated settled states x manifest faults x block damage sets.",
        "level_note": "Trusted: harness/tparse (table parser) and the journal reader used to list physical entries before the damage.",
        "assumptions": DBM_ASSUME,
    },
    "C04": {
        "test": "TestC04", "level": "fault_enumeration", "engine": "crash",
        "technique": "crash-point injection over generated workloads: durability-tracking storage, admissible post-crash images, subset-solver oracle (rapid); thorough enumerates every crash instant of each generated history",
        "quick": {"shards": 16, "n": 1500, "timeout": 600},
        "thorough": {"shards": 16, "n": 60, "timeout": 3400},
        "floor": {"quick": 2000, "thorough": 30000},
        "replay_runs": 10,
        "rule": "rapid draws a workload (puts, deletes, batches, oversized batches, explicit transactions, bursts of concurrent writers released together so that they merge, CompactRange, reopen; per-write Sync flags; tiny buffers; MaxManifestFileSize 1/64/1024/default), a crash instant t among the mutating storage operations (counted from before the first Open), a per-file tail mode (unsynced tail lost / kept / cut at a byte / cut+zeros / cut+garbage) and optionally 1-2 further crash instants inside the recovery Open. The storage captures the durable image atomically at t; writes whose call had returned nil with Sync before t (and transactions whose Commit had returned) are mandatory. Oracle: Open(image) succeeds; the full scan R equals apply(S) for some subset S of the issued batches in issue order containing all mandatory ones (linear-time subset solver; values identify their writer); then 0-25 further operations run against the reopened DB with R as model, C06 invariants on every version. "
                "Quick: one drawn t per workload; thorough: every t of each workload. Instants before the DB exists (no CURRENT yet) are counted as creation_crash_skipped. Non-trivial: the image differs from the live files (some unsynced tail was cut) or t lies inside background work / rotation (not right before a foreground journal write); distinct = distinct (case, t) fingerprints.",
        "level_text": "Fault enumeration: crash points of generated histories (all of them in thorough), admissible images sampled per file; the oracle is exact for the property's crash model.",
        "level_note": "Crash model exactly as the property states: metadata operations (create/remove/rename/SetMeta) atomic and durable, file data durable up to the last Sync. NoSync is never set. The live storage keeps working after the image is taken (no fault injection mixed in).",
        "assumptions": ["crash model: metadata ops atomic+durable, data durable up to last Sync", "random tail garbage does not forge a CRC (2^-32)"],
    },
    "C08": {
        "test": "TestC08", "level": "fault_enumeration", "engine": "fault",
        "technique": "fault injection at generated (operation kind, file type, k-th occurrence) positions over generated workloads, subset-solver and per-key admissible-value oracles (rapid)",
        "quick": {"shards": 16, "n": 150, "timeout": 900},
        "thorough": {"shards": 16, "n": 4000, "timeout": 3400},
        "floor": {"quick": 500, "thorough": 15000},
        "replay_runs": 5,
        "rule": "rapid draws a workload (writes with Sync mix, reads, CompactRange, reopen, explicit transactions, oversized batches) and a plan of 1-3 faults (kind in create/open/read/write(short)/sync/close/remove/rename/setmeta x file type journal/table/manifest/any x k-th occurrence x repeat 1,2,5 or until healed), armed and healed at drawn steps. While running, every Get must return an error, or a value that is the effect of the last successful write to the key or of a later failed write. After healing (quiescent) and again after close+reopen the full scan must equal apply(S) with all successful writes in S and failed writes optional (subset solver). Continued use is checked with the full model oracle. A quarter of the cases then alter one byte of a table data block at rest: every read returns the stored value or an error. Calls that do not return within 25 s are counted inconclusive here (C09 decides them). "
                "Non-trivial: >=1 planned fault fired, further operations ran after it, and the case ended with a reopen.",
        "level_text": "Fault enumeration by position over generated workloads (sampled; thorough raises counts), exact oracle for acknowledged-write preservation and all-or-nothing failed writes.",
        "level_note": "A failing Write may leave any prefix of its bytes (short write). Read errors are never violations. DisableCompactionBackoff is set so that retries are immediate.",
        "assumptions": ["values identify their writer", "a failing write may be partially applied to the file (short write)"],
    },
    "C09": {
        "test": "TestC09", "level": "exploration", "engine": "fault",
        "technique": "fault injection over generated workloads with a watchdog: bounded responsiveness after the injected failures stop, confirmed by a stable-blocked-state test on two goroutine dumps (rapid)",
        "quick": {"shards": 12, "n": 80, "timeout": 1200, "extra": [{"test": "TestC09W", "n": 120, "shards": 6}]},
        "thorough": {"shards": 12, "n": 4000, "timeout": 3400, "extra": [{"test": "TestC09W", "n": 16000, "shards": 6}]},
        "floor": {"quick": 300, "thorough": 8000},
        "replay_runs": 2,
        "replay_timeout": 600,
        "rule": "the C08 workloads and fault plans (journal/table/manifest create, write, sync, close, remove, rename, SetMeta failures on the paths that hold the write lock or the compaction-commit lock; transactions, oversized batches, CompactRange, reopen/Close at any point) run in strict mode: every Put/Write/Get/OpenTransaction/Commit/Discard/CompactRange/Open/Close is issued under a watchdog; 5 s after issue (longer than the 3x1 s for which Transaction.Commit retries by itself, so that the call after a failed Commit still meets the failures) the watchdog stops all injected failures, and if the call has still not returned 12 s later two goroutine dumps 1.5 s apart are compared: if every goroutine inside goleveldb is parked on the same operation in both (none runnable, sleeping or in a syscall) the DB is in a stable blocked state = violation; otherwise the case is counted inconclusive. "
                "Non-trivial: a fault fired on a lock-holding path (journal, manifest, table create/write/sync) and further calls were issued afterwards.",
        "level_text": "Exploration; liveness is decided as bounded responsiveness plus a stable-blocked-state test, so every report is a genuine deadlock; silence is evidence only up to the bound.",
        "level_note": "Single client plus the DB's background goroutines in this engine; concurrent writers and Close racing with calls are exercised by C10 (writers) and C18 (Close vs. reads). DisableCompactionBackoff is set.",
        "assumptions": ["a blocked state that is identical in two dumps 1.5 s apart and contains no runnable/sleeping goroutine will not resolve by itself"],
    },
    "C05": {
        "test": "TestC05", "level": "exploration", "engine": "conc",
        "technique": "property-based generation of concurrent client programs, schedule stretching through verif yield points, linearizability checking of the recorded history with porcupine",
        "quick": {"shards": 16, "n": 400, "timeout": 900, "gomaxprocs": [0, 1, 2, 4]},
        "thorough": {"shards": 16, "n": 18000, "timeout": 3400, "gomaxprocs": [0, 1, 2, 4, 16]},
        "floor": {"quick": 2000, "thorough": 50000},
        "shrink": False,
        "replay_runs": 300,
        "rule": "rapid draws programs of 2-6 client goroutines x 8-40 operations over 2-6 keys: Put/Delete/batch Write over several keys (sizes straddling buffer rotation, Sync and NoWriteMerge toggles), explicit transactions, Get, GetSnapshot+full scan, NewIterator+full scan; tiny write buffer so that flushes, compactions and version installs happen during the run; GOMAXPROCS and a yield plan (probability per verif yield point: after a reader fixed its sequence number, between taking buffers and taking the version, between inserting a write group and publishing its sequence, after publishing, between manifest commit and dropping the frozen buffer, between transaction commit and sequence update, around the merge-protocol channel operations; Gosched or 1-200 us sleeps) are drawn; each program is run under 3 schedules. Every call is recorded with invocation/response timestamps; the history must be linearizable w.r.t. a KV model with atomic multi-key writes, point reads and cuts (a snapshot/iterator scan must equal the state at one instant inside the creating call) - decided by porcupine (8 s budget; timeout = inconclusive). "
                "Non-trivial: a write overlaps a read or cut in real time and a buffer flush happened during the run; distinct = distinct (program, schedule index) fingerprints.",
        "level_text": "Exploration: schedules are sampled, each observed history is judged by a complete linearizability checker.",
        "level_note": "The harness does not own the Go scheduler: yield hooks and GOMAXPROCS variation widen the windows named by the property but do not enumerate interleavings. Failures are schedule-dependent: the replay file holds the program and the failing history, replay re-runs the program 300 times.",
        "assumptions": ["values are unique per write, so porcupine's search is cheap", "timestamps from one monotonic clock"],
    },
    "C10": {
        "test": "TestC10", "level": "exploration", "engine": "conc",
        "technique": "property-based generation of concurrent writer programs with racing lock competitors; invariant checking over the write-path event trace (verif hook) joined with call results",
        "quick": {"shards": 16, "n": 500, "timeout": 900, "gomaxprocs": [0, 1, 2, 4]},
        "thorough": {"shards": 16, "n": 14000, "timeout": 3400, "gomaxprocs": [0, 1, 2, 4, 16]},
        "floor": {"quick": 1000, "thorough": 30000},
        "shrink": False,
        "replay_runs": 200,
        "rule": "rapid draws 2-12 concurrent writers x 3-25 writes (Put/Delete/batch; sizes from 0 to 300 KB around the 128 KiB merge limit and the free buffer space; Sync and NoWriteMerge flags), a racer competing for the write lock at a drawn point (Close, OpenTransaction+Discard, CompactRange, SetReadOnly), optionally a journal create/write/sync fault so that a whole group fails, a yield plan on the protocol's channel operations and GOMAXPROCS; 2 schedules per program. Trace invariants: between a lock acquisition and its release/hand-off no other acquisition; acknowledgements sent = writers merged; a refused (too large) writer ends the group with a hand-off and is exactly the next lock holder, otherwise the lock is released exactly once; at most one journal record and one publication per group; the number of records a group publishes equals the sum of its members' records. Results: every writer call returns within 40 s; a merged writer returns its leader's result; afterwards (after reopen if the racer closed or froze the DB) every acknowledged write is fully readable and every failed write is visible entirely or not at all. "
                "Non-trivial: the trace has a group with >=2 members and a hand-off.",
        "level_text": "Exploration with sampled rendezvous orders; the trace oracle is exact for the stated protocol.",
        "level_note": "Event order is the order in which the hook's mutex was taken; emission points are placed so that causally ordered protocol steps are logged in causal order.",
        "assumptions": [],
    },
}

# Properties not claimed (reason); filled automatically with "not built yet" when absent.
NOT_APPLICABLE = {}

# Additions to the generation rules made after the first build (kept apart so that the history of a rule stays readable).
RULE_ADD = {
    "C01": "Keys and values are handed over as slices of larger buffers (spare capacity filled with other bytes) that must be intact after the call; Batch objects are fresh, reused with Reset, pre-sized with MakeBatch or Loaded from another batch's Dump, and Len/Replay are compared with what was recorded.",
    "C04": "Two thirds of the cases use tail-mode set 1, which adds cuts at 4 KiB page and 32 KiB journal-block boundaries followed by zeros up to the old length; one case in six has the long-journal shape (write buffer 128 KiB-1 MiB, 3-33 KB values, batches of up to 8 x 4 KiB) so that journal records straddle block boundaries, and one in eight the long-manifest shape (1 KiB keys, 512-byte write buffer) so that manifest records do; every other writer of a burst uses DB.Write with a two-record batch.",
    "C11": "30% of the sequential histories get a spliced-in trspill fragment: OpenTransaction, 2-5 puts of more than half a write buffer each (the transaction flushes tables of its own), Transaction.Get of those keys, Discard (2/3) or Commit, directly followed by an oversized batch (another transaction's table, the one that can be given the removed table's file number) and Gets of all keys involved. In the fault variant every other failed Commit (and failed Transaction.Put) is retried, twice at most, before the transaction is discarded.",
    "C08": "A trrace shape (5% of the cases): every table write takes 40-250 us, rounds of buffer-filling puts leave table compactions running in the background, a transaction opened meanwhile flushes tables of its own (two table builders alive at once), one table write/sync fails (a compaction output or the transaction's table is dropped and the work retried), the transaction is committed or discarded and more rounds, a CompactRange, reads of every key and a reopen follow. A trfail shape: a transaction with tables of its own whose Commit meets manifest create/write/sync failures lasting through all its attempts and through the following Discard, then ordinary use. Every other failed Transaction.Commit / Transaction.Put is retried (twice at most) instead of discarding at once. Iterators positioned with Seek (landing pair admissible, no certainly-existing key between the probe and the landing point unless an error is reported) and whole-DB iterator scans in both directions also run while faults are armed (every yielded pair admissible for its key, strictly ordered, no certainly-existing key skipped unless the iterator reports an error); a readfault shape arms one or two table open/read failures under such scans over a multi-level tree with cold caches.",
    "C05": "CompactRange is a client operation too (no effect on the model). Has and snapshot Get are point reads of the model too; every other snapshot / iterator scan walks backwards (Last/Prev) and must yield the same cut.",
    "C10": "An observer goroutine takes snapshots throughout the run: the members of a write group (known from the trace) that wrote a key must all be visible in a snapshot or none of them. The caller's Batch must be byte-identical after DB.Write returns (a foreign record merged into it would be written again with it).",
    "C06": "Histories also contain recover (settle, Close, leveldb.Recover: every table re-registered in level 0 in file-number order), chain-forming churn (2-3 puts per buffer over 5-7 adjacent keys: transitive level-0 overlaps), sizeof, and in 30% of the cases a storage that delays table removal by 300 us.",
    "C07": "sizeof steps (SizeOf over three nested ranges: non-negative, additive, bounded by the table bytes) take and release table-cache handles; 30% of the cases delay table removal by 300 us.",
    "C12": "A quarter of the record payloads of 64 bytes and more are well-formed journal streams themselves (a reader that loses its framing inside one yields records never written); a third of the damage specs aim at the header bytes of a record. Reader reuse: every read is done twice, with a fresh Reader and with one that was used on another stream (opposite strictness, checksums off, left inside a spanning record) and then Reset; both must agree. Writer reuse: a Writer used on another output and then Reset must produce byte-identical output and complete the record it owed the old output; Writer.Size() equals the delivered bytes at every Flush.",
    "C13": "Probes include the comparer's Separator of every adjacent stored pair and the Successor of the last key (the non-stored keys the writer puts into the index block); FindKey (filtered and not) is held to the same oracle as Find.",
    "C14": "Up to three long-lived iterators are moved between Puts and Deletes: First/Last/Seek answer from the current contents, Prev from the key the iterator stands on, Next from its successor link; Next from a pair that was deleted meanwhile is either replaced by a re-seek or taken and judged by what must still hold (lands after the key it stood on, inside the range, on a pair stored at some time).",
    "C15": "DefaultComparer's Separator/Successor are also called with a non-empty dst (caller prefix): the prefix must stay and the appended part must obey the same laws.",
    "C17": "One constructor in eleven fails (returns no value: Get returns nil). Up to three handles are taken before Close and released after it. Keys and namespaces are small, have the top bit set on every other one, or are scattered over all 64 bits; Gets go through Cache.Get, NamespaceGetter.Get or a lookup-only Get with a nil constructor.",
    "C18": "In the racing scene Close is stretched (closing the journal and manifest files takes 250 us each) so that readers meet every intermediate state of the shutdown; Has is judged like Get.",
    "C19": "A fifth of the histories end inside a transaction that has flushed tables of its own and is still open when the DB is closed (Close discards it; none of its writes may be recovered); a quarter end with an idle reopen followed by a few small writes, and a third write and reopen right after Recover. A third of the cases keep an iterator open over the last steps of the history and release it immediately before Close; 30% delay table removal by 300 us; the settled-state premise (storage listing = live files) is checked before Close.",
    "C20": "Every argument is a slice of a larger buffer whose spare capacity holds other bytes; the argument and the bytes behind it must be intact after the call (Put, Delete, Get, Has, Seek, SizeOf on DB, snapshot and transaction).",
}
for _k, _v in RULE_ADD.items():
    CHECKS[_k]["rule"] += " " + _v
