"""Definitions of the checks: which harness test decides which property, with
what case counts per tier, and the texts that go into MANIFEST.json and the
evidence files. MANIFEST.json is generated from this table by
tools/mkmanifest.py."""

DBM_ASSUME = [
    "the checker's in-memory storage (harness/vfs) behaves like a correct file system",
    "the reference model (a Go map ordered by the case's comparer) is correct",
    "single client; background compaction timing is either forced to quiescence after every write (deterministic-layout cases) or left free",
]

CHECKS = {
    "C01": {
        "test": "TestC01",
        "level": "exploration",
        "technique": "model-based stateful property testing (rapid): generated op sequences vs. an ordered-map model",
        "design_ref": "DESIGN.md §5 C01",
        "quick": {"shards": 16, "n": 1200, "timeout": 600},
        "thorough": {"shards": 16, "n": 60000, "timeout": 3000},
        "floor": {"quick": 1500, "thorough": 50000},
        "rule": "rapid draws (options, comparer, key pool, 10-250 ops: put/del/batch/large batch/get/compact/reopen/idle/snapshot/scan); "
                "every write is followed by Get+Has of the touched keys, every CompactRange/reopen and the end of the case by Get+Has of all pool keys and a full scan, all compared with a map model. "
                "A case is non-trivial if >=1 buffer flush and >=1 table compaction ran (DB.Stats) and reads were checked after them; "
                "distinct = distinct FNV-1a fingerprints of the case JSON among non-trivial cases (set union over shards).",
        "level_text": "Exploration: tens of thousands (quick) to a million (thorough) generated single-client histories over tiny-sized layouts, all comparers of the contract and all layout options, each compared read-by-read with an ordered-map model; shrunk replay files. No exhaustiveness claim.",
        "level_note": "Trusted: harness/vfs storage, the map model, DB.Stats counters for classification. Schedules of background compaction are not controlled beyond forcing quiescence in half of the cases.",
        "assumptions": DBM_ASSUME,
    },
    "C02": {
        "test": "TestC02", "level": "exploration",
        "technique": "model-based stateful property testing (rapid): generated iterator walks vs. a cursor over the model's sorted list",
        "quick": {"shards": 16, "n": 900, "timeout": 600},
        "thorough": {"shards": 16, "n": 40000, "timeout": 3000},
        "floor": {"quick": 500, "thorough": 20000},
        "rule": "rapid draws a DB history (writes, deletes, batches, compactions, snapshots held so that hidden versions stay in the tables, transactions) interleaved with iterators on DB / snapshot / transaction with drawn ranges and drawn walks (First/Last/Seek/Next/Prev, up to 30 moves, long-lived iterators resumed later). "
                "Every move's result, Valid(), Key and Value are compared with a cursor over the model's sorted restricted list; each iterator ends with a full forward and a full backward pass. "
                "Non-trivial: the case has a walk with a direction reversal and a Seek, tables next to the write buffer (>=2 physical sources) and hidden entries (snapshot held or delete before compaction). distinct = distinct case fingerprints.",
        "level_text": "Exploration: generated walks over generated layouts, compared move by move with the documented cursor semantics; component iterators are covered additionally by C13/C14 checks. No exhaustiveness claim.",
        "level_note": "Trusted: cursor model (position -1..n), vfs storage. Ranges are always valid intervals (Start<=Limit).",
        "assumptions": DBM_ASSUME,
    },
    "C03": {
        "test": "TestC03", "level": "exploration",
        "technique": "model-based stateful property testing (rapid): persistent model copies per snapshot/iterator",
        "quick": {"shards": 16, "n": 800, "timeout": 600},
        "thorough": {"shards": 16, "n": 40000, "timeout": 3000},
        "floor": {"quick": 1000, "thorough": 30000},
        "rule": "rapid draws histories with up to 6 simultaneously live snapshots and 4 live iterators, point reads / scans / resumed walks through them, interleaved with writes, deletes, flushes, automatic and manual compactions; each handle is compared with the model copy taken at its creation, and after releasing one handle all others and the live DB are re-checked. "
                "Non-trivial: a handle was read after a table compaction that ran after a key visible through it had been overwritten or deleted.",
        "level_text": "Exploration over generated single-client histories; every read through a handle is compared with the frozen model copy.",
        "level_note": "Trusted: model copies, vfs. Iterators are released before Close (documented requirement).",
        "assumptions": DBM_ASSUME,
    },
    "C06": {
        "test": "TestC06", "level": "exploration",
        "technique": "stateful property testing with a validity predicate evaluated on every installed version (pinned through the verif version-observer hook)",
        "quick": {"shards": 16, "n": 500, "timeout": 600},
        "thorough": {"shards": 16, "n": 25000, "timeout": 3000},
        "floor": {"quick": 1000, "thorough": 20000},
        "rule": "rapid draws histories (flushes, automatic/seek/manual compactions, trivial moves, transactions, large batches, reopen) under all comparers and size options; EVERY version installed by the session is handed to the checker pinned, all its tables are read back from storage with table.NewReader under the real internal comparer and checked: file exists with recorded size, entries strictly increasing and parsable, recorded smallest/largest = first/last entry, levels>=1 sorted with strictly disjoint user-key ranges, and for every user key every entry in a shallower level is newer than every entry in a deeper level. "
                "Non-trivial: the case installed a version with >=2 non-empty levels and >=2 files in some level >=1.",
        "level_text": "Exploration: the well-formedness predicate is evaluated on every version installation of every generated history (about 10^5 versions per quick run).",
        "level_note": "Trusted: the table reader used to read tables back, the version-observer hook (pins the version under the session mutex), vfs. States between two storage operations inside one installation are covered by C04.",
        "assumptions": DBM_ASSUME,
    },
    "C07": {
        "test": "TestC07", "level": "exploration",
        "technique": "stateful property testing: long-lived iterators vs. model copies plus storage-listing invariants at quiescence",
        "quick": {"shards": 16, "n": 600, "timeout": 600},
        "thorough": {"shards": 16, "n": 30000, "timeout": 3000},
        "floor": {"quick": 300, "thorough": 10000},
        "rule": "rapid draws histories with long-lived iterators (OpenFilesCacheCapacity 1-2 so tables are reopened from storage), compactions, discarded transactions and reopen. Oracle A: every iterator is walked and fully scanned at the end and must equal its model copy; the storage flags any Open of a removed table. "
                "Oracle B: at idle points (VerifWaitIdle) with no iterator or transaction alive, and after reopen, storage must hold exactly the live tables, one journal, the current manifest. Non-trivial: an iterator stayed alive across >=1 table removal and >=1 file-set check ran.",
        "level_text": "Exploration over generated histories; both directions of the property (nothing needed deleted / nothing unneeded kept) are checked.",
        "level_note": "Trusted: VerifWaitIdle establishes quiescence (synchronises with the compaction goroutines and the reference loop); vfs listing.",
        "assumptions": DBM_ASSUME,
    },
    "C11": {
        "test": "TestC11", "level": "exploration",
        "technique": "model-based stateful property testing (rapid): transaction overlay model",
        "quick": {"shards": 16, "n": 700, "timeout": 600},
        "thorough": {"shards": 16, "n": 30000, "timeout": 3000},
        "floor": {"quick": 1000, "thorough": 20000},
        "rule": "rapid draws histories with OpenTransaction, transaction writes spanning several internal flushes, reads inside (overlay model) and outside (model at open) the transaction, Commit, Discard, Close with an open transaction, oversized DB.Write batches; after Discard/Commit/reopen a full sweep is compared with the model and, at idle, storage must contain no table outside the live set. "
                "Non-trivial: a transaction was committed or discarded in a case that also flushed buffers.",
        "level_text": "Exploration of the sequential transaction semantics (isolation, atomic visibility, no residue); crash atomicity of Commit is covered by the C04 engine, blocking behaviour by C09.",
        "level_note": "Trusted: overlay model, vfs listing, VerifWaitIdle.",
        "assumptions": DBM_ASSUME,
    },
    "C20": {
        "test": "TestC20", "level": "exploration",
        "technique": "stateful property testing in poison mode: argument and result buffers are overwritten after every call",
        "quick": {"shards": 16, "n": 900, "timeout": 600},
        "thorough": {"shards": 16, "n": 40000, "timeout": 3000},
        "floor": {"quick": 1000, "thorough": 20000},
        "rule": "the C01 machine in poison mode: every key/value/batch buffer passed to Put/Delete/Write/Batch.Put/Batch.Delete/Seek is compared with a pre-call copy and then overwritten with 0xAA; every value returned by DB.Get / Transaction.Get is overwritten; iterator Key/Value are copied and compared again after further DB activity before the iterator moves; buffer pool, block cache and compression are drawn. All later reads are compared with a model built from private copies. "
                "Non-trivial: >=2 Get results that came after flush+compaction (i.e. from table blocks) were scribbled and keys re-read.",
        "level_text": "Exploration: aliasing in either direction shows up as a later read disagreeing with the model.",
        "level_note": "Trusted: model built from copies. Snapshot.Get results are not overwritten (its documentation forbids it).",
        "assumptions": DBM_ASSUME,
    },
}

# Properties not claimed (reason); filled automatically with "not built yet" when absent.
NOT_APPLICABLE = {}
