"""Definitions of the checks: which harness test decides which property, with
what case counts per tier, and the texts that go into MANIFEST.json and the
evidence files. MANIFEST.json is generated from this table by
tools/mkmanifest.py."""

DBM_ASSUME = [
    "the checker's in-memory storage (harness/vfs) behaves like a correct file system",
    "the reference model (a Go map ordered by the case's comparer) is correct",
    "single client; background compaction timing is either forced to quiescence after every write (deterministic-layout cases) or left free",
]

CHECKS = {
    "C01": {
        "test": "TestC01",
        "level": "exploration",
        "technique": "model-based stateful property testing (rapid): generated op sequences vs. an ordered-map model",
        "design_ref": "DESIGN.md §5 C01",
        "quick": {"shards": 16, "n": 1200, "timeout": 600},
        "thorough": {"shards": 16, "n": 60000, "timeout": 3000},
        "floor": {"quick": 1500, "thorough": 50000},
        "rule": "rapid draws (options, comparer, key pool, 10-250 ops: put/del/batch/large batch/get/compact/reopen/idle/snapshot/scan); "
                "every write is followed by Get+Has of the touched keys, every CompactRange/reopen and the end of the case by Get+Has of all pool keys and a full scan, all compared with a map model. "
                "A case is non-trivial if >=1 buffer flush and >=1 table compaction ran (DB.Stats) and reads were checked after them; "
                "distinct = distinct FNV-1a fingerprints of the case JSON among non-trivial cases (set union over shards).",
        "level_text": "Exploration: tens of thousands (quick) to a million (thorough) generated single-client histories over tiny-sized layouts, all comparers of the contract and all layout options, each compared read-by-read with an ordered-map model; shrunk replay files. No exhaustiveness claim.",
        "level_note": "Trusted: harness/vfs storage, the map model, DB.Stats counters for classification. Schedules of background compaction are not controlled beyond forcing quiescence in half of the cases.",
        "assumptions": DBM_ASSUME,
    },
}

# Properties not claimed (reason); filled automatically with "not built yet" when absent.
NOT_APPLICABLE = {}
