#!/usr/bin/env python3
"""Generate /verif/MANIFEST.json from tools/checkdefs.py and properties.jsonl."""
import json, os, subprocess, sys
ROOT = os.path.dirname(os.path.dirname(os.path.abspath(__file__)))
sys.path.insert(0, os.path.join(ROOT, "tools"))
from checkdefs import CHECKS, NOT_APPLICABLE

props = [json.loads(l) for l in open(os.path.join(ROOT, "properties.jsonl"))]
hooks = subprocess.run(["git", "-C", "/repo", "log", "--format=%H %s"], stdout=subprocess.PIPE, text=True).stdout.splitlines()
hook_commits = [l.split()[0] for l in hooks if l.split(" ", 1)[1].startswith("verif hooks")]

checks = []
for p in props:
    pid = p["id"]
    if pid not in CHECKS:
        continue
    c = CHECKS[pid]
    entry = {
        "property_id": pid,
        "quick_cmd": "./check %s quick" % pid,
        "thorough_cmd": "./check %s thorough" % pid,
        "evidence_file": "/verif/evidence/%s.json" % pid,
        "replay_cmd_template": "./check %s --replay {path}" % pid,
        "engine": c.get("engine", "dbm"),
        "level_claimed": {"category": c["level"], "text": c["level_text"], "design_ref": c.get("design_ref", "DESIGN.md §5 " + pid)},
        "level_note": c["level_note"],
        "technique": c["technique"],
    }
    checks.append(entry)

na = []
for p in props:
    if p["id"] not in CHECKS:
        na.append({"property_id": p["id"], "reason": NOT_APPLICABLE.get(p["id"], "check not built yet in this round; see DESIGN.md §5 for the planned design")})

m = {
    "version": 1,
    "setup_cmd": "./check --build",
    "hooks": {
        "guard": "verif",
        "enable": "Go build tag: the driver builds the harness with `go test -c -tags verif` against /repo (replace directive in harness/go.mod)",
        "baseline_off_cmd": "cd /repo && GOFLAGS=-mod=mod GOPROXY=off GOSUMDB=off go test -vet=off -count=1 -timeout 25m ./...",
        "source_commits": hook_commits,
        "add_only": True,
    },
    "engines": [
        {"name": "dbm", "path": "harness/dbm", "serves_properties": ["C01", "C02", "C03", "C06", "C07", "C11", "C16", "C18", "C19", "C20"],
         "kind_free_text": "rapid-driven sequential state machine over leveldb.DB on the checker's storage, compared with an ordered-map model"},
        {"name": "vfs", "path": "harness/vfs", "serves_properties": ["C04", "C08", "C09", "C18", "C19"],
         "kind_free_text": "in-memory storage.Storage with durability tracking, crash images, fault plans, operation log"},
    ],
    "checks": checks,
    "not_applicable": na,
    "notes": "All checks are property-based tests / fuzzers (pgregory.net/rapid, Go native fuzzing) with explicit oracles; see DESIGN.md. known_findings.jsonl lists fixed and open findings.",
}
json.dump(m, open(os.path.join(ROOT, "MANIFEST.json"), "w"), indent=1)
print("MANIFEST.json: %d checks, %d not_applicable" % (len(checks), len(na)))
